(* C18 -- Every enumerated keyword maps back to the value that printed it. *)
From Coq Require Import Strings.String.
From Coq Require Import List ZArith Bool.
From Coq Require Import Strings.Byte.
From LLIR Require Import Lib.Bytes Gen.Enums Gen.Printers Model.GoEval.
From LLIR Require Import Proofs.EnumProofs Proofs.CallingConvProofs.
Import ListNotations.
Local Open Scope Z_scope.

(* Over the tables regenerated from ir/enum/*_string.go, ir/types/floatkind_string.go and
   asm/enum/*_string2enum.go as they are now (the bound of the finite statement is the table itself):
   every declared value of every enumerated type prints to a keyword -- never the T(%d) fallback --
   that the parser-side converter maps back to the same value ... *)
Theorem C18_every_keyword_round_trips : forall t, In t all_enums -> forall v, In v (e_values t) ->
  exists s, to_string t v = Some s /\ from_string t s = Ok v.
Proof. exact enum_roundtrip. Qed.

(* ... and no two values of a type share a keyword *)
Theorem C18_round_trip_and_injective_all_tables :
  forallb (fun t => roundtrip_ok t && inj_ok t) all_enums = true.
Proof. exact all_enums_roundtrip. Qed.

(* all 35 enumerated types are in the table *)
Example C18_table_count : List.length all_enums = 35%nat /\
  list_sum (map (fun t => List.length (e_values t)) all_enums) = 653%nat.
Proof. vm_compute. split; reflexivity. Qed.

(* numeric calling conventions, on the regenerated parser-side converter asm.irCallingConv:
   cc N is read as the value N, except that 0 is shifted to the value of ccc *)
Theorem C18_numeric_calling_convention_read : forall n,
  parse_cc n = GoEval.Ok (VEnum "enum.CallingConv" (if (n =? 0)%Z then 1 else n)).
Proof. exact irCallingConv_int. Qed.

(* printer side (regenerated ir.callingConvString): keyword when there is one, cc N otherwise *)
Example C18_calling_convention_printed :
  print_cc 1 = GoEval.Ok (VStr (bytes_of_string "ccc")) /\ print_cc 8 = GoEval.Ok (VStr (bytes_of_string "fastcc"))
  /\ print_cc 2 = GoEval.Ok (VStr (bytes_of_string "cc 2")) /\ print_cc 1023 = GoEval.Ok (VStr (bytes_of_string "cc 1023")).
Proof. exact print_cc_examples. Qed.

(* known finding KF-31: cc 1 and cc 0 are read as one value, which is printed ccc *)
Theorem C18_cc1_is_read_as_ccc_refuted : parse_cc 1 = parse_cc 0.
Proof. exact cc1_is_read_as_ccc. Qed.
