(* C18 -- Every enumerated keyword maps back to the value that printed it. *)
From Coq Require Import Strings.String.
From Coq Require Import List ZArith NArith Bool Lia.
From Coq Require Import Strings.Byte.
From LLIR Require Import Lib.Bytes Gen.Enums Model.EnumModel Gen.Printers Model.GoEval.
From LLIR Require Import Proofs.EnumProofs Proofs.CallingConvProofs.
Import ListNotations.
Local Open Scope Z_scope.

(* Over the tables regenerated from ir/enum/*_string.go, ir/types/floatkind_string.go and
   asm/enum/*_string2enum.go as they are now (the bound of the finite statement is the table itself):
   every declared value of every enumerated type prints to a keyword -- never the T(%d) fallback --
   that the parser-side converter maps back to the same value ... *)
Theorem C18_every_keyword_round_trips : forall t, In t all_enums -> forall v, In v (e_values t) ->
  exists s, to_string t v = Some s /\ from_string t s = EnumModel.Ok v.
Proof. exact enum_roundtrip. Qed.

(* ... and no two values of a type share a keyword *)
Theorem C18_round_trip_and_injective_all_tables :
  forallb (fun t => roundtrip_ok t && inj_ok t) all_enums = true.
Proof. exact all_enums_roundtrip. Qed.

(* all 35 enumerated types are in the table *)
Example C18_table_count : List.length all_enums = 35%nat /\
  list_sum (map (fun t => List.length (e_values t)) all_enums) = 653%nat.
Proof. vm_compute. split; reflexivity. Qed.

(* numeric calling conventions, on the regenerated parser-side converter asm.irCallingConv:
   cc N is read as the value N, except that 0 is shifted to the value of ccc *)
Theorem C18_numeric_calling_convention_read : forall n,
  parse_cc n = GoEval.Ok (VEnum "enum.CallingConv" (if (n =? 0)%Z then 1 else n)).
Proof. exact irCallingConv_int. Qed.

(* printer side (regenerated ir.callingConvString): keyword when there is one, cc N otherwise *)
Example C18_calling_convention_printed :
  print_cc 1 = GoEval.Ok (VStr (bytes_of_string "ccc")) /\ print_cc 8 = GoEval.Ok (VStr (bytes_of_string "fastcc"))
  /\ print_cc 2 = GoEval.Ok (VStr (bytes_of_string "cc 2")) /\ print_cc 1023 = GoEval.Ok (VStr (bytes_of_string "cc 1023")).
Proof. exact print_cc_examples. Qed.

(* known finding KF-31: cc 1 and cc 0 are read as one value, which is printed ccc *)
Theorem C18_cc1_is_read_as_ccc_refuted : parse_cc 1 = parse_cc 0.
Proof. exact cc1_is_read_as_ccc. Qed.

(* ---- flag sets print as exactly the set of their members (unbounded: every subset) ---- *)
From LLIR Require Import Model.FlagSets Proofs.FlagSetProofs.
Local Open Scope N_scope.

Lemma in_all_enums_DISPFlag : In DISPFlag_tables all_enums. Proof. unfold all_enums. repeat (first [left; reflexivity | right]). Qed.
Lemma in_all_enums_AllocKind : In AllocKind_tables all_enums. Proof. unfold all_enums. repeat (first [left; reflexivity | right]). Qed.
Lemma in_all_enums_DIFlag : In DIFlag_tables all_enums. Proof. unfold all_enums. repeat (first [left; reflexivity | right]). Qed.

(* the members of each flag type, read off the regenerated tables (the domain of the statements) *)
Example C18_flag_members :
  named_bits DISPFlag_tables 0 11 = [0; 1; 2; 3; 4; 5; 6; 7; 8; 9; 11]%nat
  /\ named_bits AllocKind_tables 0 5 = [0; 1; 2; 3; 4; 5]%nat
  /\ named_bits DIFlag_tables 2 29 = [2; 3; 4; 5; 6; 7; 8; 9; 10; 11; 12; 13; 14; 15; 16; 17; 18; 19; 20; 22; 23; 24; 25; 26; 27; 28; 29]%nat.
Proof. vm_compute. repeat split. Qed.

(* DISPFlag (dispFlagsString walks the masks 1<<0 .. 1<<11 after fix c0585b0; irDISPFlags ORs the
   keyword values): for EVERY subset of the members the printed keywords are exactly the members that
   are set, and reading them back gives the flag value *)
Theorem C18_dispflag_sets_round_trip : forall flags,
  N.land flags (union (map mask_of (named_bits DISPFlag_tables 0 11))) = flags ->
  exists ss, print_all DISPFlag_tables (members flags (bit_range 0 11)) = Some ss
             /\ read_all DISPFlag_tables ss = Some flags
             /\ (forall v, In v (members flags (bit_range 0 11)) <->
                           exists k, In k (named_bits DISPFlag_tables 0 11) /\ v = mask_of k /\ N.testbit flags (N.of_nat k) = true).
Proof. intros flags. exact (flagset_round_trip DISPFlag_tables 0 11 flags in_all_enums_DISPFlag). Qed.
Theorem C18_allockind_sets_round_trip : forall flags,
  N.land flags (union (map mask_of (named_bits AllocKind_tables 0 5))) = flags ->
  exists ss, print_all AllocKind_tables (members flags (bit_range 0 5)) = Some ss
             /\ read_all AllocKind_tables ss = Some flags
             /\ (forall v, In v (members flags (bit_range 0 5)) <->
                           exists k, In k (named_bits AllocKind_tables 0 5) /\ v = mask_of k /\ N.testbit flags (N.of_nat k) = true).
Proof. intros flags. exact (flagset_round_trip AllocKind_tables 0 5 flags in_all_enums_AllocKind). Qed.
(* DIFlag: the accessibility field (bits 0-1, three keywords) first, then the masks 1<<2 .. 1<<29 *)
Theorem C18_diflag_sets_round_trip : forall flags,
  N.land flags (N.lor 3 (union (map mask_of (named_bits DIFlag_tables 2 29)))) = flags ->
  exists ss, print_all DIFlag_tables (di_members flags (bit_range 2 29)) = Some ss /\ read_all DIFlag_tables ss = Some flags.
Proof.
  intros flags. apply di_flagset_round_trip; [apply le_n| |exact in_all_enums_DIFlag].
  intros a Ha. assert (a = 1 \/ a = 2 \/ a = 3) as [->|[->| ->]] by lia; reflexivity.
Qed.
Example C18_flagset_example :
  print_all DISPFlag_tables (members 520 (bit_range 0 11)) =
    Some [bytes_of_string "DISPFlagDefinition"; bytes_of_string "DISPFlagDeleted"]
  /\ read_all DISPFlag_tables [bytes_of_string "DISPFlagDefinition"; bytes_of_string "DISPFlagDeleted"] = Some 520.
Proof. vm_compute. split; reflexivity. Qed.
