(* C11 -- Names and strings are escaped losslessly and unambiguously. *)
From Coq Require Import List Bool NArith ZArith.
From Coq Require Import Strings.Byte.
From LLIR Require Import Lib.Bytes Lib.Radix Model.Enc Model.TypeString Model.Lexical Gen.Printers.
From LLIR Require Import Proofs.EncProofs Proofs.LexicalProofs Proofs.NameFlowProofs.
Import ListNotations.

(* strings (section, partition, GC, inline asm, metadata strings, character arrays): every byte
   string, all 256 byte values, any length *)
Theorem C11_unescape_escape_string : forall s, unescape (escape_string s) = s.
Proof. exact unescape_escape_string. Qed.
Theorem C11_unquote_quote : forall s, unquote (quote s) = s.
Proof. exact unquote_quote. Qed.
Theorem C11_unquote_escape_ident : forall s, unquote (escape_ident s) = s.
Proof. exact unquote_escape_ident. Qed.

(* global and local names: the library decodes what it prints, for every name outside the class
   minus_zero (names of the form -0...0, KF-26) *)
Theorem C11_decode_global_name_partial : forall n, minus_zero n = false -> decode_global (global_name n) = Some (Name n).
Proof. exact decode_global_name. Qed.
Theorem C11_decode_local_name_partial : forall n, minus_zero n = false -> decode_local (local_name n) = Some (Name n).
Proof. exact decode_local_name. Qed.
Theorem C11_decode_label_name_partial : forall n, minus_zero n = false -> decode_label (label_name n) = Some (Name n).
Proof. exact decode_label_name. Qed.
Theorem C11_decode_global_name_refuted : exists n, n <> [] /\ decode_global (global_name n) = Some (ID 0).
Proof. exact decode_global_name_refuted. Qed.

(* comdat and metadata names have no ID form *)
Theorem C11_decode_comdat_name : forall n, decode_comdat (comdat_name n) = Some n.
Proof. exact decode_comdat_name. Qed.
Theorem C11_decode_metadata_name : forall n tok, metadata_name n = Some tok -> decode_metadata_name tok = Some n.
Proof. exact decode_metadata_name_ok. Qed.

(* type names: survive unless the name looks like an integer (KF-04) *)
Theorem C11_decode_type_name_partial : forall n, parse_int64 n = None -> decode_type (type_name n) = Some n.
Proof. exact decode_type_name. Qed.
Theorem C11_decode_type_name_refuted : exists n, decode_type (type_name n) <> Some n.
Proof. exact decode_type_name_refuted. Qed.

(* unnamed IDs print and decode as IDs; a name is never mistaken for an ID or vice versa *)
Theorem C11_decode_global_id : forall n, (Z.of_N n <= 2 ^ 63 - 1)%Z -> decode_global (global_id n) = Some (ID (Z.of_N n)).
Proof. exact decode_global_id. Qed.
Theorem C11_decode_local_id : forall n, (Z.of_N n <= 2 ^ 63 - 1)%Z -> decode_local (local_id n) = Some (ID (Z.of_N n)).
Proof. exact decode_local_id. Qed.
Theorem C11_name_not_id_partial : forall n k, minus_zero n = false -> decode_global (global_name n) <> Some (ID k).
Proof. exact name_not_id. Qed.
Theorem C11_id_not_name : forall n s, (Z.of_N n <= 2 ^ 63 - 1)%Z -> decode_global (global_id n) <> Some (Name s).
Proof. exact id_not_name. Qed.
(* distinct names never print alike *)
Theorem C11_global_name_injective_partial : forall a b, minus_zero a = false -> minus_zero b = false ->
  global_name a = global_name b -> a = b.
Proof. exact global_name_inj. Qed.

(* LLVM's reading of the printed token (Model/Lexical.v: LexVar / LexUIntID as a specification):
   the same bytes, except for names printed bare with a leading digit (KF-01) and all-digit names
   of 2^64 and above (KF-02) *)
Theorem C11_llvm_reads_name_partial : forall sigil n, n <> [] -> lead_digit_bare n = false ->
  llvm_var (tl (sigil_name sigil n)) = Some (Name n).
Proof. exact llvm_reads_name. Qed.
Theorem C11_llvm_lead_digit_refuted : llvm_global (global_name [x32; x61; x62; x63]) = None.
Proof. exact llvm_lead_digit_refuted. Qed.
Theorem C11_llvm_huge_numeric_refuted : llvm_global (global_name (print_dec_N (2 ^ 64))) = Some (ID 0).
Proof. exact llvm_huge_numeric_refuted. Qed.

(* regenerated tie: in the printer bodies as they are in the source now, no field holding a name is
   formatted raw; each reaches the output only through enc.* / quote (whose models the theorems above
   are about) *)
Theorem C11_no_name_is_printed_raw :
  forallb (fun p => match flat_map sraw (p_body p) with [] => true | _ => false end) ir_printers = true.
Proof. exact no_name_is_printed_raw. Qed.
Theorem C11_names_go_through_escapers :
  forallb (fun p => forallb (fun fa => existsb (String.eqb (fst fa)) escapers) (flat_map snamed (p_body p))) ir_printers = true.
Proof. exact names_go_through_escapers. Qed.

(* ---- the tie by regeneration: every function of internal/enc/enc.go, translated into the table enc_bodies of
   Gen/Printers.v on every run (closures lambda-lifted, loops bounded by 1 + the length of the arguments, Go
   library calls given their meaning in GoEval.go_library) and run by Model/GoEval.v, computes exactly what the
   model Model/Enc.v computes, for all byte strings.  The statements above about the model's escape_ident, quote,
   unescape and the six name printers are therefore statements about the code. ---- *)
From Coq Require Import Strings.String.
From LLIR Require Model.GoEval Proofs.EncRefinement.
Local Open Scope string_scope.
Module ER := EncRefinement.
Theorem C11_generated_escape_ident_is_the_model : forall s,
  ER.run_enc "EscapeIdent" [GoEval.VStr s] = GoEval.Ok (GoEval.VStr (escape_ident s)).
Proof. exact ER.generated_escape_ident_is_model. Qed.
Theorem C11_generated_escape_string_is_the_model : forall s,
  ER.run_enc "EscapeString" [GoEval.VStr s] = GoEval.Ok (GoEval.VStr (escape_string s)).
Proof. exact ER.generated_escape_string_is_model. Qed.
Theorem C11_generated_quote_is_the_model : forall s,
  ER.run_enc "Quote" [GoEval.VStr s] = GoEval.Ok (GoEval.VStr (quote s)).
Proof. exact ER.generated_quote_is_model. Qed.
Theorem C11_generated_unescape_is_the_model : forall s,
  ER.run_enc "Unescape" [GoEval.VStr s] = GoEval.Ok (GoEval.VStr (unescape s)).
Proof. exact ER.generated_unescape_is_model. Qed.
Theorem C11_generated_names_are_the_model : forall s,
  ER.run_enc "GlobalName" [GoEval.VStr s] = GoEval.Ok (GoEval.VStr (global_name s)) /\
  ER.run_enc "LocalName" [GoEval.VStr s] = GoEval.Ok (GoEval.VStr (local_name s)) /\
  ER.run_enc "LabelName" [GoEval.VStr s] = GoEval.Ok (GoEval.VStr (label_name s)) /\
  ER.run_enc "TypeName" [GoEval.VStr s] = GoEval.Ok (GoEval.VStr (type_name s)) /\
  ER.run_enc "ComdatName" [GoEval.VStr s] = GoEval.Ok (GoEval.VStr (comdat_name s)) /\
  ER.run_enc "MetadataName" [GoEval.VStr s] = match metadata_name s with Some r => GoEval.Ok (GoEval.VStr r) | None => GoEval.Fail "panic" end.
Proof.
  intros s. repeat split.
  - apply ER.generated_global_name_is_model.
  - apply ER.generated_local_name_is_model.
  - apply ER.generated_label_name_is_model.
  - apply ER.generated_type_name_is_model.
  - apply ER.generated_comdat_name_is_model.
  - apply ER.generated_metadata_name_is_model.
Qed.
Print Assumptions C11_generated_escape_ident_is_the_model.
Print Assumptions C11_generated_unescape_is_the_model.
Print Assumptions C11_generated_names_are_the_model.
