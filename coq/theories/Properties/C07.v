(* C07 -- getelementptr result types are computed correctly and consistently. *)
From Coq Require Import List Bool NArith ZArith.
From LLIR Require Import Lib.Bytes Model.Types Model.GoEval Model.Gep.
From LLIR Require Import Proofs.GepProofs Proofs.GepRefinement.
Import ListNotations.

(* the walker of internal/gep against LLVM's rule, for element types of any nesting and index lists
   of any length: whatever element it reaches is the one LLVM reaches (soundness), and on
   well-formed index lists (struct steps constant and in range) it reaches it (completeness) *)
Theorem C07_walk_sound : forall bodies idxs first e rvl e' rvl',
  walk bodies first e idxs rvl = Ok (e', rvl') ->
  llvm_elem bodies e (map step_of (if first then tl idxs else idxs)) = Some e'.
Proof. exact walk_sound. Qed.
Theorem C07_walk_complete : forall bodies idxs e rvl e',
  llvm_elem bodies e (map step_of idxs) = Some e' ->
  (forall ix, In ix idxs -> merge_len rvl ix = Ok rvl) ->
  walk bodies false e idxs rvl = Ok (e', rvl).
Proof. exact walk_complete. Qed.

(* the three copies of the index classifier (parser, instruction constructor, alias scaffolds) agree
   on scalar integer / boolean / zeroinitializer / undef / poison / ptrtoint indices and on integer
   vector constants; the expression constructor agrees on non-empty integer vectors *)
Theorem C07_classifiers_agree_partial : forall c, synced c = true ->
  classify_asm_inst (IConst c) = classify_ir_inst (IConst c) /\
  classify_asm_alias c = classify_asm_inst (IConst c).
Proof. exact classifiers_agree_partial. Qed.
Theorem C07_classifier_expr_agrees_on_vectors : forall els ix, els <> [] -> all_int els = true ->
  classify_ir_inst (IConst (CVec els)) = Ok ix -> classify_ir_expr (CVec els) = Ok ix.
Proof. exact classifier_expr_agrees_on_vec. Qed.

(* regenerated tie: internal/gep.ResultType as it is in the source now equals the model's walker,
   for every element type, source type and index list, panics included *)
Theorem C07_gep_result_generated : forall elem src idxs,
  run_gep elem src idxs = expect (result_type no_bodies elem src idxs).
Proof. exact gep_result_generated. Qed.

(* known findings, each refuted on the faithful model *)
Theorem C07_zeroinit_vector_index_refuted : exists c, classify_ir_inst (IConst c) <> classify_ir_expr c.
Proof. exact zeroinit_vector_index_refuted. Qed.
Theorem C07_undef_vector_index_refuted : exists c, classify_ir_inst (IConst c) <> classify_ir_expr c.
Proof. exact undef_vector_index_refuted. Qed.
Theorem C07_constexpr_index_refuted : exists c, classify_asm_inst (IConst c) = Panic /\ classify_ir_inst (IConst c) <> Panic.
Proof. exact constexpr_index_refuted. Qed.
Theorem C07_scalable_base_refuted :
  exists elem src, result_type (fun _ => None) elem src [new_index 0] = Ok (TVec false 4 (TPtr elem 0))
                   /\ src = TVec true 4 (TPtr elem 0).
Proof. exact scalable_base_refuted. Qed.
