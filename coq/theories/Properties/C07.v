(* C07 -- getelementptr result types are computed correctly and consistently. *)
From Coq Require Import List Bool NArith ZArith.
From LLIR Require Import Lib.Bytes Model.Types Model.GoEval Model.Gep.
From LLIR Require Import Proofs.GepProofs Proofs.GepRefinement Proofs.GepBodiesRefinement.
Import ListNotations.

(* the walker of internal/gep against LLVM's rule, for element types of any nesting and index lists
   of any length: whatever element it reaches is the one LLVM reaches (soundness), and on
   well-formed index lists (struct steps constant and in range) it reaches it (completeness) *)
Theorem C07_walk_sound : forall bodies idxs first e rvl e' rvl',
  walk bodies first e idxs rvl = Ok (e', rvl') ->
  llvm_elem bodies e (map step_of (if first then tl idxs else idxs)) = Some e'.
Proof. exact walk_sound. Qed.
Theorem C07_walk_complete : forall bodies idxs e rvl e',
  llvm_elem bodies e (map step_of idxs) = Some e' ->
  (forall ix, In ix idxs -> merge_len rvl ix = Ok rvl) ->
  walk bodies false e idxs rvl = Ok (e', rvl).
Proof. exact walk_complete. Qed.

(* as one statement: a pointer base or a fixed-length vector-of-pointers base, index operands that are scalars
   or vectors of the one common length n > 0, any element type, any number of indices -- the walker returns a
   type exactly when LLVM's rule yields one, and it is that type (pointer to the element reached, in the base's
   address space, vectorised by the first vector operand) *)
Theorem C07_result_type_llvm : forall bodies n, (0 < n)%N -> forall elem src a bshape idxs shapes t,
  base_ok n src a bshape -> Forall2 (shape_of_len n) idxs shapes ->
  (result_type bodies elem src idxs = Ok t <-> llvm_gep bodies elem a bshape shapes (map step_of (tl idxs)) = Some t).
Proof. exact result_type_llvm_iff. Qed.
Example C07_result_type_llvm_example :
  let st := TStruct false [TInt 32; TArr 4 (TInt 8)] in
  let idxs := [no_val 2; new_index 1; new_index 3] in
  let shapes := [Vector false 2; Scalar; Scalar] in
  base_ok 2 (TPtr st 0) 0 Scalar /\ Forall2 (shape_of_len 2) idxs shapes /\
  llvm_gep (fun _ => None) st 0 Scalar shapes (map step_of (tl idxs)) = Some (TVec false 2 (TPtr (TInt 8) 0)) /\
  result_type (fun _ => None) st (TPtr st 0) idxs = Ok (TVec false 2 (TPtr (TInt 8) 0)).
Proof. exact result_type_llvm_example. Qed.

(* the three copies of the index classifier (parser, instruction constructor, alias scaffolds) agree
   on scalar integer / boolean / zeroinitializer / undef / poison / ptrtoint indices and on integer
   vector constants; the expression constructor agrees on non-empty integer vectors *)
Theorem C07_classifiers_agree_partial : forall c, synced c = true ->
  classify_asm_inst (IConst c) = classify_ir_inst (IConst c) /\
  classify_asm_alias c = classify_asm_inst (IConst c).
Proof. exact classifiers_agree_partial. Qed.
Theorem C07_classifier_expr_agrees_on_vectors : forall els ix, els <> [] -> all_int els = true ->
  classify_ir_inst (IConst (CVec els)) = Ok ix -> classify_ir_expr (CVec els) = Ok ix.
Proof. exact classifier_expr_agrees_on_vec. Qed.

(* regenerated tie: internal/gep.ResultType as it is in the source now equals the model's walker,
   for every element type, source type and index list, panics included *)
Theorem C07_gep_result_generated : forall elem src idxs,
  run_gep elem src idxs = expect (result_type no_bodies elem src idxs).
Proof. exact gep_result_generated. Qed.

(* known findings, each refuted on the faithful model *)
Theorem C07_zeroinit_vector_index_refuted : exists c, classify_ir_inst (IConst c) <> classify_ir_expr c.
Proof. exact zeroinit_vector_index_refuted. Qed.
Theorem C07_undef_vector_index_refuted : exists c, classify_ir_inst (IConst c) <> classify_ir_expr c.
Proof. exact undef_vector_index_refuted. Qed.
Theorem C07_constexpr_index_refuted : exists c, classify_asm_inst (IConst c) = Panic /\ classify_ir_inst (IConst c) <> Panic.
Proof. exact constexpr_index_refuted. Qed.
Theorem C07_scalable_base_refuted :
  exists elem src, result_type (fun _ => None) elem src [new_index 0] = Ok (TVec false 4 (TPtr elem 0))
                   /\ src = TVec true 4 (TPtr elem 0).
Proof. exact scalable_base_refuted. Qed.

(* the regenerated tie with the bodies of identified struct types in the reified Go object: the element type
   and the source type unfolded d times (reify_ty_in: an identified struct is the *types.StructType with
   TypeName set and Fields the reified fields of its body, to depth d-1; Fields = nil without a body or at
   depth 0), for every d that covers the identified-struct bodies the walk enters (enough_depth: gep_need <= d;
   List.length idxs <= S d is enough) -- the regenerated function returns the model's result type unfolded to
   the depth left, panics included.  C07_walker_generated_bodies_total: below that depth the regenerated
   function panics where the tree ends, so the equation holds for every d with the test made explicit. *)
Theorem C07_walker_generated_bodies : forall bodies elem src idxs d,
  enough_depth bodies d elem src idxs ->
  run_gep_in bodies d elem src idxs = expect_in bodies (d - gep_need bodies elem src idxs) (result_type bodies elem src idxs).
Proof. exact gep_result_generated_bodies. Qed.
Print Assumptions C07_walker_generated_bodies.
Theorem C07_walker_generated_bodies_length : forall bodies elem src idxs d,
  List.length idxs <= S d ->
  run_gep_in bodies d elem src idxs = expect_in bodies (d - gep_need bodies elem src idxs) (result_type bodies elem src idxs).
Proof. exact gep_result_generated_bodies_length. Qed.
Print Assumptions C07_walker_generated_bodies_length.
Theorem C07_walker_generated_bodies_total : forall bodies elem src idxs d,
  run_gep_in bodies d elem src idxs =
  if Nat.leb (gep_need bodies elem src idxs) d
  then expect_in bodies (d - gep_need bodies elem src idxs) (result_type bodies elem src idxs)
  else go_panic.
Proof. exact gep_result_generated_bodies_total. Qed.
Print Assumptions C07_walker_generated_bodies_total.

(* ---- the index classifiers and the type functions around the walker, as regenerated ----
   (Proofs/GepIndexRefinement.v; calls between regenerated bodies resolve in the caller's package: call_from / call_in)
   getIndex of package constant and of package ir on every operand form of the model (integer constant, vector
   constant splat or not, zeroinitializer, undef, poison, constant expression, plain value; inrange or not) give the
   model's classification; gepExprType and gepInstType, and the Type() methods of the getelementptr expression and
   instruction that call them, compute the model's type (classifier over the operands, vector length from the index
   types, then the walker of C07_walker_generated); the parser's getIndex, gepInstType and gepExprType likewise on
   AST operands whose integer texts parse.  This removes the hand models of the classifiers from the trusted base. *)
From Coq Require Import String.
From LLIR Require Proofs.GepIndexRefinement.
Module GI := GepIndexRefinement.
Theorem C07_generated_get_index_is_the_model : forall pkg f inrange c t, pkg = "constant"%string \/ pkg = "ir"%string ->
  GI.read_result (GI.run_get_index pkg (S (S f)) (GI.reify_operand inrange c t)) = Gep.get_index_ir c.
Proof. exact GI.generated_get_index_reads_as_model. Qed.
Theorem C07_generated_gep_expr_type_is_the_model : forall f elem src ops,
  GI.run_gep_expr_type (S (S (S f))) elem src ops = GepRefinement.expect (GI.gep_expr_type elem src ops).
Proof. exact GI.generated_gep_expr_type_is_model. Qed.
Theorem C07_generated_gep_inst_type_is_the_model : forall f elem src ops, Forall GI.well_named ops ->
  GI.run_gep_inst_type (S (S (S f))) elem src ops = GepRefinement.expect (GI.gep_inst_type elem src ops).
Proof. exact GI.generated_gep_inst_type_is_model. Qed.
Theorem C07_generated_asm_get_index_is_the_model : forall f a, GI.valid a ->
  GI.run_asm_get_index (S (S (S f))) (GI.reify_ast a) = GI.expect_idx (Gep.get_index_asm (GI.cform_of a)).
Proof. exact GI.generated_asm_get_index_is_model. Qed.
Theorem C07_generated_asm_gep_inst_type_is_the_model : forall f elem src ops, Forall GI.asm_well_formed ops ->
  GI.run_gep_parse_type (S (S (S (S f)))) elem src ops = GI.expect_pair (GI.gep_parse_type elem src ops).
Proof. exact GI.generated_asm_gep_inst_type_is_model. Qed.
Theorem C07_generated_asm_gep_expr_type_is_the_model : forall f elem src ops, Forall GI.valid ops ->
  GI.run_gep_alias_type (S (S (S (S f)))) elem src ops = GI.expect_pair (GI.gep_alias_type elem src ops).
Proof. exact GI.generated_asm_gep_expr_type_is_model. Qed.
Print Assumptions C07_generated_get_index_is_the_model.
Print Assumptions C07_generated_gep_inst_type_is_the_model.
Print Assumptions C07_generated_asm_gep_expr_type_is_the_model.
