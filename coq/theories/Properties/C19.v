(* C19 -- WriteTo honours the io.WriterTo contract, also when the writer fails. *)
From Coq Require Import Strings.String.
From Coq Require Import List Bool Arith.
From LLIR Require Import Lib.Bytes Model.Writer Gen.Printers Model.GoEval.
From LLIR Require Gen.WriterTable.
From LLIR Require Import Proofs.WriterProofs Proofs.ObserverProofs Proofs.GenTables.
Import ListNotations.
Local Open Scope list_scope.

Definition obeys_io_writer (W : Type) (write : W -> bytes -> W * nat * bool) : Prop :=
  forall w p, let '(_, n, failed) := write w p in n <= length p /\ (n < length p -> failed = true).

(* For every chunk sequence and every writer obeying io.Writer: the count reported is the number of
   bytes delivered, the bytes delivered are a prefix of the text (the first count bytes), and with no
   error reported the whole text was delivered -- whatever the chunking. *)
Theorem C19_write_to_contract : forall (W : Type) write, obeys_io_writer W write -> forall w chunks,
  let s := run W write w chunks in
  let text := concat chunks in
  fw_size W s = length (fw_delivered W s)
  /\ fw_delivered W s = firstn (fw_size W s) text
  /\ (fw_err W s = None -> fw_delivered W s = text).
Proof. exact write_to_contract. Qed.

(* the same when the chunk sequence depends on the number of bytes accepted so far, as the
   blank-line separators of Module.WriteTo do (if len(m.X) > 0 && fw.size > 0) *)
Theorem C19_write_to_contract_size_dependent : forall (W : Type) write, obeys_io_writer W write -> forall w items,
  let s := run_items W write w items in
  let text := text_of [] items in
  fw_size W s = length (fw_delivered W s)
  /\ fw_delivered W s = firstn (fw_size W s) text
  /\ (fw_err W s = None -> fw_delivered W s = text).
Proof. exact write_to_items_contract. Qed.

(* nothing is written after the first error, and that error is the one reported *)
Theorem C19_no_write_after_error : forall (W : Type) write w pre p post e,
  fw_err W (run W write w (pre ++ [p])) = Some e ->
  run W write w (pre ++ [p] ++ post) = run W write w (pre ++ [p]).
Proof. exact no_write_after_error. Qed.

(* a writer that fails after k bytes receives exactly the first k bytes of String() *)
Theorem C19_fail_after_k_delivers_prefix : forall k items,
  let s := run_items nat (fail_after k) 0 items in
  let text := text_of [] items in
  fw_delivered nat s = firstn (fw_size nat s) text /\ fw_size nat s <= k
  /\ (fw_err nat s = None -> fw_delivered nat s = text).
Proof. exact fail_after_delivers_prefix. Qed.

(* regenerated tie: in the body of Module.WriteTo, as it is in the source now, nothing is written
   outside an fw.Fprint* call (one chunk each) *)
Theorem C19_writeto_writes_only_chunks :
  map (fun p => list_sum (map loose_writes (p_body p)))
      (filter (fun p => String.eqb (p_method p) "WriteTo") observers) = [0].
Proof. exact writeto_writes_only_chunks. Qed.

(* ... and every statement of WriteTo is inside the translated fragment (a write past fw would be an
   untranslated statement) *)
Theorem C19_writeto_has_no_untranslated_statement :
  map (fun p => list_sum (map unknowns (p_body p))) (filter (fun p => String.eqb (p_method p) "WriteTo") observers) = [0].
Proof. exact writeto_has_no_untranslated_statement. Qed.
(* regenerated tie for the writer itself: the three fmtWriter methods have, statement by statement, the shape the
   model of Model/Writer.v describes (guard on the latched error, one write on the underlying writer, the count
   and the error updated unconditionally), and WriteTo wraps the caller's writer first and returns the writer's
   counters last *)
Theorem C19_fmtwriter_is_the_model :
  forallb writer_row_ok WriterTable.writer_rows = true /\
  map WriterTable.w_method WriterTable.writer_rows = ["Fprint"; "Fprintf"; "Fprintln"]%string /\
  WriterTable.writeto_first_stmt = "fw := &fmtWriter{w: w}"%string /\ WriterTable.writeto_last_stmt = "return fw.size, fw.err"%string.
Proof. exact fmtwriter_is_the_model. Qed.

(* non-vacuity: a writer failing inside the second chunk *)
Example C19_example_mid_chunk_failure :
  let s := run_items nat (fail_after 5) 0 [Always (bytes_of_string "abc"); IfNonEmpty (bytes_of_string "defg"); Always (bytes_of_string "h")] in
  fw_size nat s = 5 /\ fw_delivered nat s = bytes_of_string "abcde" /\ fw_err nat s = Some 1 /\ fw_calls nat s = 2.
Proof. vm_compute. repeat split. Qed.
