(* C03 -- IR built through the constructors prints to valid, faithful LLVM assembly (partial). *)
From Coq Require Import List Bool ZArith String.
From LLIR Require Import Model.Types Model.ResultType Model.GoEval Gen.Printers Gen.Ctors Reviewed.Printers.
From LLIR Require Import Pipeline.MicroIR Pipeline.MicroIRProofs.
From LLIR Require Import Proofs.TypeRuleRefinement Proofs.CtorProofs Proofs.CtorRefinement.
Import ListNotations.
Open Scope string_scope.

(* R1 on uIR: what is printed from a well-formed constructed module denotes what was built -- the
   translation of the printed AST is the module itself (opcode, operand order, types, flags, constant
   values), for any number of globals, functions, blocks and instructions *)
Theorem C03_translate_embed : forall choose_hex m, wf m -> translate (embed choose_hex m) = MicroIR.Ok m.
Proof. exact translate_embed. Qed.

(* the 135 exported New* functions, over the regenerated table: every constructor outside the reviewed
   list has no other statement, stores each parameter in exactly one field, unchanged, and calls at
   most Type() *)
Theorem C03_ctor_faithful : forall c, In c ctors -> is_reviewed c = false ->
  c_other c = [] /\ stores_params c = true /\ calls_only_type c = true.
Proof. exact ctor_faithful. Qed.
Theorem C03_reviewed_is_tight :
  forallb (fun pn => existsb (fun c => String.eqb (c_pkg c) (fst pn) && String.eqb (c_name c) (snd pn) && negb (plain c && stores_params c && calls_only_type c)) ctors) reviewed = true.
Proof. exact reviewed_is_tight. Qed.

(* on the regenerated constructor bodies run in Coq: the 18 binary and bitwise constructors store their
   arguments in order and cache the result type of the first operand; a well-typed construction is
   never rejected by the constructor's own check (the type is ir_type, which is Ok where LLVM types it) *)
Theorem C03_binary_ctors_faithful : forall bodies,
  Forall (fun k => forall tx ty',
    field "X" (construct ("ir.New" ++ k) [operand tx; operand ty']) = GoEval.Ok (operand tx)
    /\ field "Y" (construct ("ir.New" ++ k) [operand tx; operand ty']) = GoEval.Ok (operand ty')
    /\ field "Typ" (construct ("ir.New" ++ k) [operand tx; operand ty']) = expect (ir_type bodies (SameAsFirst tx)))
  binary_kinds.
Proof. exact binary_ctors_faithful. Qed.
Theorem C03_NewSelect_faithful : forall bodies c a b tc ta tb,
  c = operand tc -> a = operand ta -> b = operand tb ->
  field "Cond" (construct "ir.NewSelect" [c; a; b]) = GoEval.Ok c
  /\ field "ValueTrue" (construct "ir.NewSelect" [c; a; b]) = GoEval.Ok a
  /\ field "ValueFalse" (construct "ir.NewSelect" [c; a; b]) = GoEval.Ok b
  /\ field "Typ" (construct "ir.NewSelect" [c; a; b]) = expect (ir_type bodies (SameAsFirst ta)).
Proof. exact NewSelect_faithful. Qed.
Theorem C03_printers_match : printers = reviewed_printers.
Proof. exact printers_match. Qed.
