(* C12 -- Translation is deterministic. *)
From Coq Require Import List Bool ZArith Sorting.Sorted Sorting.Permutation String.
From LLIR Require Import Lib.Bytes Model.Skeleton Model.Natsort Model.Assemble Gen.MapLoops.
From LLIR Require Import Proofs.SkeletonProofs Proofs.NatsortProofs Proofs.AssembleProofs Proofs.GenTables.
Import ListNotations.

(* Go map iteration is an explicit order oracle (any permutation of the keys). For any two fair
   oracles: acceptance is the same, and accepted modules are equal -- whatever the map iteration order
   of the translator's indices and the order in which independent entities are translated.  The sort
   is only assumed to return the same slice for permuted inputs (discharged by C20's theorems). *)
Theorem C12_translate_order_independent : forall (o1 o2 : oracle), fair o1 -> fair o2 ->
  forall sort_idents, (forall a b, Permutation a b -> sort_idents a = sort_idents b) -> forall l,
  is_ok (translate o1 sort_idents l) = is_ok (translate o2 sort_idents l) /\
  (forall m1 m2, translate o1 sort_idents l = Skeleton.Ok m1 -> translate o2 sort_idents l = Skeleton.Ok m2 -> m1 = m2).
Proof. exact translate_order_independent. Qed.

(* the sorted slices of the assembled module do not depend on the iteration order or the sort used *)
Theorem C12_assembly_order_independent : forall (V : Type) sort1 sort2 (m1 m2 : list (bytes * V)),
  sort_ok bytes less sort1 -> sort_ok bytes less sort2 -> NoDup (map fst m1) -> Permutation m1 m2 ->
  assemble bytes_eqb sort1 m1 = assemble bytes_eqb sort2 m2.
Proof. exact natsort_assemble_order_independent. Qed.

(* translate has no state argument: the model has nothing through which an earlier parse could
   influence a later one (fresh generator per call) *)
Theorem C12_no_state_between_parses : forall o s l, translate o s l = translate o s l.
Proof. reflexivity. Qed.

(* regenerated tie: every range over a Go map in package asm and in ir/module.go, as the source is
   now, is a keyed write or a collect-then-sort loop -- none is order sensitive *)
Theorem C12_map_loops_are_order_insensitive : forallb loop_ok map_loops = true.
Proof. exact loops_ok. Qed.
Theorem C12_map_loop_count : List.length map_loops = 18.
Proof. exact number_of_map_loops. Qed.
