(* C10 -- Floating-point literals keep their exact bit pattern (partial: see DESIGN.md section 4). *)
From Coq Require Import ZArith Bool.
From LLIR Require Import Model.FloatBits Model.FloatX87 Model.FloatPPC.
From LLIR Require Import Proofs.FloatBitsProofs Proofs.FloatX87Proofs Proofs.FloatPPCProofs.
Local Open Scope Z_scope.

(* any IEEE interchange format with 1 < ew and 0 < mw -- binary16 (0xH), binary64 (0x..., also carrying
   float literals), binary128 (0xL): every non-NaN bit pattern, signed zeros, subnormals, normals and
   infinities included, survives decoding into what a big.Float holds and encoding back *)
Theorem C10_ieee_roundtrip : forall f, 1 < ew f -> 0 < mw f -> forall s E M,
  0 <= E < 2 ^ ew f -> 0 <= M < 2 ^ mw f -> is_nan_bits f (compose f s E M) = false ->
  encode f (decode f (compose f s E M)) = compose f s E M.
Proof. exact roundtrip. Qed.
Theorem C10_roundtrip_half : forall s E M, 0 <= E < 2 ^ 5 -> 0 <= M < 2 ^ 10 ->
  is_nan_bits binary16 (compose binary16 s E M) = false ->
  encode binary16 (decode binary16 (compose binary16 s E M)) = compose binary16 s E M.
Proof. exact roundtrip_binary16. Qed.
Theorem C10_roundtrip_double : forall s E M, 0 <= E < 2 ^ 11 -> 0 <= M < 2 ^ 52 ->
  is_nan_bits binary64 (compose binary64 s E M) = false ->
  encode binary64 (decode binary64 (compose binary64 s E M)) = compose binary64 s E M.
Proof. exact roundtrip_binary64. Qed.
Theorem C10_roundtrip_fp128 : forall s E M, 0 <= E < 2 ^ 15 -> 0 <= M < 2 ^ 112 ->
  is_nan_bits binary128 (compose binary128 s E M) = false ->
  encode binary128 (decode binary128 (compose binary128 s E M)) = compose binary128 s E M.
Proof. exact roundtrip_binary128. Qed.
(* float literals are the bit patterns of the equal doubles (low 29 mantissa bits zero); Ident prints
   Float64bits(x) with those bits cleared, after SetPrec(24): the pattern survives, and the precision step
   loses nothing because the decoded value has at most 24 significant bits *)
Theorem C10_roundtrip_float_in_double : forall s E M, 0 <= E < 2 ^ 11 -> 0 <= M < 2 ^ 52 -> M mod 2 ^ 29 = 0 ->
  is_nan_bits binary64 (compose binary64 s E M) = false ->
  mask29 (encode binary64 (decode binary64 (compose binary64 s E M))) = compose binary64 s E M.
Proof. exact float_in_double_roundtrip. Qed.
Theorem C10_float_in_double_fits_24_bits : forall s E M, 0 <= E < 2 ^ 11 -> 0 <= M < 2 ^ 52 -> M mod 2 ^ 29 = 0 ->
  match decode binary64 (compose binary64 s E M) with FFin _ m _ => Zpos m < 2 ^ 24 | _ => True end.
Proof. exact float_in_double_fits_24_bits. Qed.
Example C10_float_in_double_example :
  mask29 (encode binary64 (decode binary64 0x3FF8000000000000)) = 0x3FF8000000000000 /\
  0x3FF8000000000000 = compose binary64 false 0x3FF 0x8000000000000 /\ 0x8000000000000 mod 2 ^ 29 = 0.
Proof. exact float_in_double_example. Qed.
(* NaNs: the sign is kept, payload and signalling bit are not (KF-06) *)
Theorem C10_nan_canonicalised : forall f, 1 < ew f -> 0 < mw f -> forall s M, 0 < M < 2 ^ mw f ->
  encode f (decode f (compose f s (emax_field f) M)) = compose f s (emax_field f) (2 ^ (mw f - 1)).
Proof. exact nan_canonicalised. Qed.
Example C10_nan_payload_refuted : encode binary64 (decode binary64 0x7FF0000000000001) = 0x7FF8000000000000.
Proof. exact nan_payload_refuted. Qed.

(* x86_fp80: every canonical encoding (what LLVM itself prints) survives; pseudo-denormals are
   re-encoded with exponent field 1 (the same value for LLVM); NaNs are canonicalised; the library and
   LLVM agree on which encodings are NaNs except on unnormals (KF-27) *)
Theorem C10_roundtrip_x87 : forall s E m, canonical80 E m -> encode80 (decode80 s E m) = Some (s, E, m).
Proof. exact roundtrip80. Qed.
Theorem C10_pseudo_denormal_x87 : forall s m, int_bit <= m < 2 ^ 64 -> encode80 (decode80 s 0 m) = Some (s, 1, m).
Proof. exact pseudo_denormal80. Qed.
Theorem C10_nan_x87_canonicalised : forall s m, m <> int_bit -> encode80 (decode80 s 0x7FFF m) = Some (s, 0x7FFF, qnan80).
Proof. exact nan80_canonicalised. Qed.
Theorem C10_nan_class_x87_partial : forall s E m, 0 <= E <= 0x7FFF -> 0 <= m -> unnormal80 E m = false ->
  is_nan (decode80 s E m) = llvm_is_nan80 E m.
Proof. exact nan_class80_partial. Qed.
Theorem C10_nan_class_x87_refuted : exists s E m, 0 <= E <= 0x7FFF /\ 0 <= m < 2 ^ 64 /\
  is_nan (decode80 s E m) <> llvm_is_nan80 E m /\ encode80 (decode80 s E m) = Some (false, 0x3FC1, int_bit).
Proof. exact nan_class80_refuted. Qed.

(* ppc_fp128 (two doubles summed in one 106-bit big.Float, split again by two roundings): the faithful
   model refutes the round trip (KF-22), shows -Inf printed as +Inf (KF-29), the parser panic on
   +Inf/-Inf (KF-28) and the printer panic on an overflowing sum (KF-30); what holds: a literal whose
   low word is +0.0 (what clang emits when widening a double) survives, -Inf excepted *)
Theorem C10_ppc_roundtrip_refuted : exists a b, 0 <= a < 2 ^ 64 /\ 0 <= b < 2 ^ 64 /\
  is_nan_bits binary64 a = false /\ is_nan_bits binary64 b = false /\ rt a b <> Some (Some (a, b)).
Proof. exact ppc_roundtrip_refuted. Qed.
Theorem C10_ppc_neg_inf_refuted : rt 0xFFF0000000000000 0 = Some (Some (0x7FF0000000000000, 0)).
Proof. exact ppc_neg_inf_refuted. Qed.
Theorem C10_ppc_inf_panic_refuted : rt 0x7FF0000000000000 0xFFF0000000000000 = None.
Proof. exact ppc_inf_panic. Qed.
Theorem C10_ppc_overflow_panic_refuted : rt 0x7FEFFFFFFFFFFFFF 0x7FEFFFFFFFFFFFFF = Some None.
Proof. exact ppc_overflow_panic. Qed.
Theorem C10_ppc_low_zero_roundtrip_partial : forall s E M, 0 <= E < 2 ^ 11 -> 0 <= M < 2 ^ 52 ->
  is_nan_bits binary64 (compose binary64 s E M) = false -> (E = 2047 -> s = false) ->
  rt (compose binary64 s E M) 0 = Some (Some (compose binary64 s E M, 0)).
Proof. exact ppc_low_zero_roundtrip. Qed.

(* ---- decimal literals of kind double: the reading of the text ----
   Model/DecRead.v reads a non-negative rational n/d into binary64 (K stands for the double K * 2^-1074; the
   representable K are the m * 2^j with m < 2^53, j <= 2045).  The reader is the correctly rounded one: the result
   is representable, no representable value is nearer, a tie goes to the even significand, an exactly representable
   value is read as itself, the result is +Inf exactly from the rounding boundary 2^1024 - 2^970 on, and reading is
   monotone.  It is what LLVM's reader does and, since the repair of KF-40, what constant.NewFloatFromString does
   (correspondence kind dec_read, on literals next to rounding boundaries among others). *)
From LLIR Require Import Model.DecRead Proofs.DecReadProofs.
Local Open Scope Z_scope.
Theorem C10_decimal_read_is_representable : forall n d K, 0 <= n -> 0 < d -> read n d = RFinite K -> representable K.
Proof. exact read_representable. Qed.
Theorem C10_decimal_read_is_nearest : forall n d K, 0 <= n -> 0 < d -> read n d = RFinite K ->
  forall K', representable K' -> Z.abs (n * 2 ^ 1074 - K * d) <= Z.abs (n * 2 ^ 1074 - K' * d).
Proof. exact read_nearest. Qed.
Theorem C10_decimal_read_ties_to_even : forall n d K, 0 <= n -> 0 < d -> read n d = RFinite K ->
  forall K', representable K' -> K' <> K -> Z.abs (n * 2 ^ 1074 - K * d) = Z.abs (n * 2 ^ 1074 - K' * d) ->
  exists m j, 0 <= m < 2 ^ 53 /\ 0 <= j <= 2045 /\ K = m * 2 ^ j /\ (2 ^ 52 <= m \/ j = 0) /\ Z.even m = true.
Proof. exact read_ties_even. Qed.
Theorem C10_decimal_read_exact : forall n d K, 0 <= n -> 0 < d -> representable K -> n * 2 ^ 1074 = K * d -> read n d = RFinite K.
Proof. exact read_exact. Qed.
Theorem C10_decimal_read_overflow : forall n d, 0 <= n -> 0 < d -> (read n d = RInf <-> (2 ^ 1024 - 2 ^ 970) * d <= n).
Proof. exact read_overflow. Qed.
Theorem C10_decimal_read_monotone : forall n1 d1 n2 d2 K1 K2,
  0 <= n1 -> 0 < d1 -> 0 <= n2 -> 0 < d2 -> n1 * d2 <= n2 * d1 -> read n1 d1 = RFinite K1 -> read n2 d2 = RFinite K2 -> K1 <= K2.
Proof. exact read_monotone. Qed.
Theorem C10_double_bits_injective : forall K1 K2, representable K1 -> representable K2 -> bits_of K1 = bits_of K2 -> K1 = K2.
Proof. exact bits_of_inj. Qed.
(* KF-40's literals: just above and just below half of the smallest subnormal; the overflow boundary *)
Example C10_decimal_read_examples :
  bits_of_rd (read_decimal 24703282292062328 (-340)) = 1 /\ bits_of_rd (read_decimal 24703282292062327 (-340)) = 0
  /\ bits_of_rd (read_decimal 17976931348623157 292) = 0x7FEFFFFFFFFFFFFF /\ read_decimal 17976931348623159 292 = RInf
  /\ bits_of_rd (read_decimal 1 (-1)) = 0x3FB999999999999A.
Proof. vm_compute. repeat split. Qed.
Print Assumptions C10_decimal_read_is_nearest.
Print Assumptions C10_decimal_read_ties_to_even.
Print Assumptions C10_decimal_read_overflow.
Print Assumptions C10_decimal_read_monotone.
