(* C05 -- Undefined or doubly defined names are reported as errors. *)
From Coq Require Import List Bool ZArith Sorting.Permutation.
From Coq Require Import Strings.Byte.
From LLIR Require Import Lib.Bytes Model.Skeleton Proofs.SkeletonProofs.
From LLIR Require Import Pipeline.MicroIR Pipeline.MicroIRResolve.
From LLIR Require Gen.Printers Proofs.ErrorFlowProofs Proofs.ParserCacheProofs.
Import ListNotations.

(* module level (Model/Skeleton.v: the name-resolution skeleton of asm/translate.go, any number of
   top-level entities, any fair map-iteration order): if translate returns a module then every use in
   every indexed definition -- of a type, global, comdat or metadata name -- has a definition; i.e.
   an undefined name is never silently accepted.  Attribute-group uses are the documented exception. *)
Theorem C05_accepted_has_no_undefined_use : forall (o : oracle), fair o -> forall sort_idents l m old,
  index_defs (number_globals l 0) [] = Skeleton.Ok old -> Skeleton.translate o sort_idents l = Skeleton.Ok m ->
  forall n i t u, n <> NComdat -> get old n i = Some t -> In u (t_uses t) -> u_ns u <> NAttr ->
    get old (u_ns u) (u_id u) <> None.
Proof. exact accepted_has_no_undefined_use. Qed.

(* a second definition of the same identifier -- comdat, global (variables, functions, aliases, ifuncs share
   the namespace; unnamed ones after numbering) or metadata -- anywhere in the module, whatever lies between
   the two and whatever the map order: no module is returned *)
Theorem C05_duplicate_definition_is_error : forall (o : oracle) sort_idents l l1 n i t1 l2 t2 l3, strict n = true ->
  number_globals l 0 = l1 ++ (n, i, t1) :: l2 ++ (n, i, t2) :: l3 -> is_ok (Skeleton.translate o sort_idents l) = false.
Proof. exact translate_rejects_duplicates. Qed.
(* types: the same, when the first of two consecutive definitions of the name is not `opaque` (the accepted
   case is the recorded finding KF-24, refuted below); attribute groups merge by design *)
Theorem C05_duplicate_type_is_error : forall (o : oracle) sort_idents l l1 i t1 l2 t2 l3, t_kind t1 <> KOpaque ->
  (forall t', ~ In (NType, i, t') l1) -> (forall t', ~ In (NType, i, t') l2) ->
  number_globals l 0 = l1 ++ (NType, i, t1) :: l2 ++ (NType, i, t2) :: l3 -> is_ok (Skeleton.translate o sort_idents l) = false.
Proof. exact translate_rejects_duplicate_types. Qed.
Example C05_duplicate_global_rejected :
  strict NGlobal = true /\
  number_globals [mk NGlobal nameA KPlain []; mk NMeta nameB KPlain []; mk NGlobal nameA KPlain []] 0
  = [] ++ (NGlobal, nameA, mk NGlobal nameA KPlain []) :: [(NMeta, nameB, mk NMeta nameB KPlain [])] ++ (NGlobal, nameA, mk NGlobal nameA KPlain []) :: [].
Proof. split; reflexivity. Qed.

(* function level (Pipeline/MicroIRResolve.v, arbitrary ASTs): an undefined local or global operand is
   an error, a duplicated local definition is an error *)
Theorem C05_undefined_local_is_error : forall gidx lidx t i, (forall k, ~ In (k, i) lidx) ->
  res_op gidx lidx (ALocal t i) = MicroIR.Err.
Proof. exact undefined_local_is_error. Qed.
Theorem C05_undefined_global_is_error : forall gidx t i, (forall k, ~ In (k, i) gidx) ->
  res_const gidx (ACGlobal t i) = MicroIR.Err.
Proof. exact undefined_global_is_error. Qed.
Theorem C05_duplicate_local_is_error : forall gidx a,
  (forall lp c lb c', scaf_params (af_params a) 0 0 = MicroIR.Ok (lp, c) -> scaf_blocks (af_blocks a) 0 c = MicroIR.Ok (lb, c') ->
     nodup_idents (lp ++ lb) = false) ->
  forall f, translate_func gidx a <> MicroIR.Ok f.
Proof. exact duplicate_local_is_error. Qed.

(* computed witnesses on the faithful model *)
Example C05_duplicate_typedef_rejected :
  Skeleton.translate id_oracle (fun l => l) [mk NType nameA KPlain []; mk NType nameA KPlain []] = Skeleton.Err.
Proof. exact duplicate_typedef_rejected. Qed.
Example C05_undefined_global_rejected :
  Skeleton.translate id_oracle (fun l => l) [mk NGlobal nameA KPlain [{| u_ns := NGlobal; u_id := nameB |}]] = Skeleton.Err.
Proof. exact undefined_global_rejected. Qed.
Example C05_undefined_attr_group_materialised :
  is_ok (Skeleton.translate id_oracle (fun l => l) [mk NGlobal nameA KPlain [{| u_ns := NAttr; u_id := INum 7 |}]]) = true.
Proof. exact undefined_attr_group_accepted. Qed.
(* an alias to an undefined type is an error (KF-10, fixed in e8258c9: it used to crash) *)
Example C05_alias_to_undefined_type_rejected :
  Skeleton.translate id_oracle (fun l => l) [mk NType nameA (KAlias nameB) []] = Skeleton.Err.
Proof. exact alias_to_undefined_rejected. Qed.
(* known finding KF-24: a type may be defined again after an opaque definition *)
Example C05_typedef_after_opaque_refuted :
  is_ok (Skeleton.translate id_oracle (fun l => l) [mk NType nameA KOpaque []; mk NType nameA KPlain []]) = true.
Proof. exact typedef_after_opaque_accepted. Qed.

(* errors are reported, not swallowed, on the code as it is now: over the regenerated bodies of all 350 functions and
   methods of package asm (type constructors, body translators of the 66 instruction and terminator kinds, of the
   constant expressions and of the 28 debug-info nodes, enum converters, and the module, type, global, constant,
   metadata and value translation with its helpers) every statement that binds err is directly followed by
   `if err != nil { .. }` (or is the last statement of a switch case, the switch being directly followed by it), and the branch of every such check ends in a return or a panic -- so the error a lookup
   of an undefined name produces reaches the caller from every use site *)
Theorem C05_errors_are_checked :
  forallb (fun p => Nat.eqb (ErrorFlowProofs.unchecked (Printers.p_body p)) 0) ErrorFlowProofs.asm_bodies = true.
Proof. exact ErrorFlowProofs.errors_are_checked. Qed.
Theorem C05_errors_are_returned :
  forallb (fun p => Nat.eqb (List.length (flat_map ErrorFlowProofs.swallowed_s (Printers.p_body p))) 0) ErrorFlowProofs.asm_bodies = true.
Proof. exact ErrorFlowProofs.errors_are_returned. Qed.

(* the explicit crash sites of package asm are the 270 reviewed ones (187 bodies): the default branch of a type
   switch over AST node kinds, the failed assertion on a scaffold object, and literal converters behind the
   grammar.  KF-12 is one of them reached by a valid input; a new panic statement anywhere in the package, or one
   that moves, changes the regenerated table *)
Theorem C05_crash_sites_are_the_reviewed_ones : ParserCacheProofs.crash_sites = ParserCacheProofs.reviewed_crash_sites.
Proof. exact ParserCacheProofs.crash_sites_are_the_reviewed_ones. Qed.
Print Assumptions C05_crash_sites_are_the_reviewed_ones.
