(* C06 -- Result types agree with LLVM's typing rules, in parser and IR alike. *)
From Coq Require Import List Bool NArith ZArith String.
From LLIR Require Import Lib.Bytes Model.Types Model.TypeString Model.ResultType Model.GoEval Gen.Printers.
From LLIR Require Import Proofs.PrinterRefinement Proofs.ResultTypeProofs Proofs.TypeRuleRefinement Proofs.CExprTypeRefinement Proofs.CallTypeRefinement.
Import ListNotations.
Open Scope string_scope.

(* For every rule shape (all instructions, value terminators, over all operand type trees): wherever
   LLVM assigns a type and no scalable vector is rebuilt, the IR library's Type() and the parser's
   pre-computed type are both exactly LLVM's type -- hence equal to each other *)
Theorem C06_result_types_agree_partial : forall bodies s t,
  llvm_type bodies s = Some t -> scalable_rebuilt s = false ->
  ir_type bodies s = ResultType.Ok t /\ asm_type bodies s = ResultType.Ok t.
Proof. exact result_types_agree. Qed.

(* known finding KF-08 on the faithful model: scalability lost by icmp / shufflevector *)
Theorem C06_icmp_scalable_refuted :
  exists s t, llvm_type (fun _ => None) s = Some t /\ ir_type (fun _ => None) s <> ResultType.Ok t /\ asm_type (fun _ => None) s <> ResultType.Ok t.
Proof. exact icmp_scalable_refuted. Qed.
Theorem C06_shuffle_scalable_refuted :
  exists s t, llvm_type (fun _ => None) s = Some t /\ ir_type (fun _ => None) s <> ResultType.Ok t.
Proof. exact shuffle_scalable_refuted. Qed.
(* ... and on the code's own regenerated method *)
Theorem C06_icmp_scalable_lost_generated : forall n e,
  run_type "ir.InstICmp" [("X", operand (TVec true n e))] = GoEval.Ok (reify_ty (TVec false n (TInt 1))).
Proof. exact icmp_scalable_lost_generated. Qed.

(* regenerated tie, package ir: the Type() methods as they are in the source now compute ir_type,
   for all operand types, panics included *)
Theorem C06_ir_icmp_generated : forall bodies x, run_type "ir.InstICmp" [("X", operand x)] = expect (ir_type bodies (ICmp x)).
Proof. exact icmp_type_generated. Qed.
Theorem C06_ir_fcmp_generated : forall bodies x, run_type "ir.InstFCmp" [("X", operand x)] = expect (ir_type bodies (FCmp x)).
Proof. exact fcmp_type_generated. Qed.
Theorem C06_ir_extractelement_generated : forall bodies x i,
  run_type "ir.InstExtractElement" [("X", operand x); ("Index", operand i)] = expect (ir_type bodies (ExtractElement x)).
Proof. exact extractelement_type_generated. Qed.
Theorem C06_ir_insertelement_generated : forall bodies x e i,
  run_type "ir.InstInsertElement" [("X", operand x); ("Elem", operand e); ("Index", operand i)] = expect (ir_type bodies (InsertElement x)).
Proof. exact insertelement_type_generated. Qed.
Theorem C06_ir_shufflevector_generated : forall bodies x y m,
  run_type "ir.InstShuffleVector" [("X", operand x); ("Y", operand y); ("Mask", operand m)] = expect (ir_type bodies (ShuffleVector x m)).
Proof. exact shufflevector_type_generated. Qed.
Theorem C06_ir_cmpxchg_generated : forall bodies p c n,
  run_type "ir.InstCmpXchg" [("Ptr", operand p); ("Cmp", operand c); ("New", operand n)] = expect (ir_type bodies (CmpXchg n)).
Proof. exact cmpxchg_type_generated. Qed.
Theorem C06_ir_atomicrmw_generated : forall bodies d x,
  run_type "ir.InstAtomicRMW" [("Dst", operand d); ("X", operand x)] = expect (ir_type bodies (AtomicRMW d)).
Proof. exact atomicrmw_type_generated. Qed.
Theorem C06_ir_select_generated : forall bodies c a b,
  run_type "ir.InstSelect" [("Cond", operand c); ("ValueTrue", operand a); ("ValueFalse", operand b)] = expect (ir_type bodies (SameAsFirst a)).
Proof. exact select_type_generated. Qed.
Theorem C06_ir_load_generated : forall bodies t s,
  run_type "ir.InstLoad" [("ElemType", reify_ty t); ("Src", operand s)] = expect (ir_type bodies (Explicit t)).
Proof. exact load_type_generated. Qed.
Theorem C06_ir_alloca_generated : forall bodies e a,
  run_type "ir.InstAlloca" [("ElemType", reify_ty e); ("AddrSpace", VEnum "types.AddrSpace" (Z.of_N a)); ("NElems", VNil)] = expect (ir_type bodies (Alloca e a)).
Proof. exact alloca_type_generated. Qed.
(* the same regenerated body when the type was cached with another address space (NewAlloca caches it before
   the caller can assign AddrSpace; KF-37, fixed): the type returned carries the current address space *)
Theorem C06_ir_alloca_stale_cache_generated : forall bodies e a a0,
  call_printer impl globals 3 "ir.InstAlloca" "Type"
    (VObj "ir.InstAlloca" [("Typ", reify_ty (TPtr e a0)); ("ElemType", reify_ty e); ("AddrSpace", VEnum "types.AddrSpace" (Z.of_N a)); ("NElems", VNil)])
  = expect (ir_type bodies (Alloca e a)).
Proof. exact alloca_type_stale_cache_generated. Qed.
Theorem C06_ir_phi_generated : forall bodies d x,
  run_type "ir.InstPhi" [("Incs", VList [VObj "ir.Incoming" [("X", operand d)]; VObj "ir.Incoming" [("X", operand x)]])] = expect (ir_type bodies (Phi d [d; x])).
Proof. exact phi_type_generated. Qed.
Theorem C06_ir_catchpad_generated : forall bodies, run_type "ir.InstCatchPad" [] = expect (ir_type bodies TokenResult).
Proof. exact catchpad_type_generated. Qed.
(* the 18 binary and bitwise kinds and the 13 conversions at once *)
Theorem C06_ir_binary_generated : forall bodies,
  Forall (fun k => forall x y, run_type ("ir.Inst" ++ k) [("X", operand x); ("Y", operand y)] = expect (ir_type bodies (SameAsFirst x))) binary_kinds.
Proof. exact binary_ir_generated. Qed.
Theorem C06_ir_conversion_generated : forall bodies,
  Forall (fun k => forall f t, run_type ("ir.Inst" ++ k) [("From", operand f); ("To", reify_ty t)] = expect (ir_type bodies (Convert f t))) conversion_kinds.
Proof. exact conversion_ir_generated. Qed.

(* regenerated tie, package asm: the parser's type constructors new*Inst compute asm_type *)
Theorem C06_asm_icmp_generated : forall bodies x,
  run_new "asm.newICmpInst" (VObj "ast.ICmpInst" [("X()", ast_operand x)]) = expect (asm_type bodies (ICmp x)).
Proof. exact asm_icmp_generated. Qed.
Theorem C06_asm_fcmp_generated : forall bodies x,
  run_new "asm.newFCmpInst" (VObj "ast.FCmpInst" [("X()", ast_operand x)]) = expect (asm_type bodies (FCmp x)).
Proof. exact asm_fcmp_generated. Qed.
Theorem C06_asm_extractelement_generated : forall bodies x,
  run_new "asm.newExtractElementInst" (VObj "ast.ExtractElementInst" [("X()", ast_operand x)]) = expect (asm_type bodies (ExtractElement x)).
Proof. exact asm_extractelement_generated. Qed.
Theorem C06_asm_insertelement_generated : forall bodies x,
  run_new "asm.newInsertElementInst" (VObj "ast.InsertElementInst" [("X()", ast_operand x)]) = expect (asm_type bodies (InsertElement x)).
Proof. exact asm_insertelement_generated. Qed.
Theorem C06_asm_shufflevector_generated : forall bodies x m,
  run_new "asm.newShuffleVectorInst" (VObj "ast.ShuffleVectorInst" [("X()", ast_operand x); ("Mask()", ast_operand m)])
  = expect (asm_type bodies (ShuffleVector x m)).
Proof. exact asm_shufflevector_generated. Qed.
Theorem C06_asm_call_generated : forall bodies w c,
  run_new "asm.newCallInst" (VObj "ast.CallInst" [("Typ()", reify_ty w)]) = expect (asm_type bodies (CallLike w c)).
Proof. exact asm_call_generated. Qed.
Theorem C06_asm_cmpxchg_generated : forall bodies n,
  run_new "asm.newCmpXchgInst" (VObj "ast.CmpXchgInst" [("New()", ast_operand n)]) = expect (asm_type bodies (CmpXchg n)).
Proof. exact asm_cmpxchg_generated. Qed.
Theorem C06_asm_binary_generated : forall bodies,
  Forall (fun k => forall x, run_new ("asm.new" ++ k ++ "Inst") (VObj "ast.node" [("X()", ast_operand x)]) = expect (asm_type bodies (SameAsFirst x))) binary_kinds.
Proof. exact binary_asm_generated. Qed.
Theorem C06_asm_conversion_generated : forall bodies,
  Forall (fun k => forall f t, run_new_f ("asm.new" ++ k ++ "Inst") "To" (VObj "ast.node" [("From()", ast_operand f); ("To()", reify_ty t)]) = expect (asm_type bodies (Convert f t))) conversion_kinds.
Proof. exact conversion_asm_generated. Qed.

(* the property itself on regenerated terms of both packages, for icmp *)
Theorem C06_icmp_parser_and_ir_agree_generated : forall bodies x t,
  llvm_type bodies (ICmp x) = Some t -> scalable_rebuilt (ICmp x) = false ->
  run_new "asm.newICmpInst" (VObj "ast.ICmpInst" [("X()", ast_operand x)]) = GoEval.Ok (reify_ty t)
  /\ run_type "ir.InstICmp" [("X", operand x)] = GoEval.Ok (reify_ty t).
Proof. exact icmp_parser_and_ir_agree_generated. Qed.

(* constant expressions: the regenerated Type() methods of package constant compute the model's type for the same
   rule shapes the instructions use -- nine binary kinds, fneg, thirteen conversions, icmp, fcmp, select,
   extractelement, insertelement, shufflevector -- for all operand types; catchswitch yields a token *)
Theorem C06_cexpr_binary_type_generated : forall bodies,
  Forall (fun k => forall x y, run_ctype k [("X", operand x); ("Y", operand y)] = expect (ir_type bodies (SameAsFirst x)))
         same_as_first_kinds.
Proof. exact cexpr_binary_type_generated. Qed.
Theorem C06_cexpr_conversion_type_generated : forall bodies,
  Forall (fun k => forall f t, run_ctype k [("From", operand f); ("To", reify_ty t)] = expect (ir_type bodies (Convert f t)))
         cexpr_conversion_kinds.
Proof. exact cexpr_conversion_type_generated. Qed.
Theorem C06_cexpr_icmp_type_generated : forall bodies x, run_ctype "ICmp" [("X", operand x)] = expect (ir_type bodies (ICmp x)).
Proof. exact cexpr_icmp_type_generated. Qed.
Theorem C06_cexpr_fcmp_type_generated : forall bodies x, run_ctype "FCmp" [("X", operand x)] = expect (ir_type bodies (FCmp x)).
Proof. exact cexpr_fcmp_type_generated. Qed.
Theorem C06_cexpr_select_type_generated : forall bodies c a b,
  run_ctype "Select" [("Cond", operand c); ("X", operand a); ("Y", operand b)] = expect (ir_type bodies (SameAsFirst a)).
Proof. exact cexpr_select_type_generated. Qed.
Theorem C06_cexpr_extractelement_type_generated : forall bodies x i,
  run_ctype "ExtractElement" [("X", operand x); ("Index", operand i)] = expect (ir_type bodies (ExtractElement x)).
Proof. exact cexpr_extractelement_type_generated. Qed.
Theorem C06_cexpr_insertelement_type_generated : forall bodies x e i,
  run_ctype "InsertElement" [("X", operand x); ("Elem", operand e); ("Index", operand i)] = expect (ir_type bodies (InsertElement x)).
Proof. exact cexpr_insertelement_type_generated. Qed.
Theorem C06_cexpr_shufflevector_type_generated : forall bodies x y m,
  run_ctype "ShuffleVector" [("X", operand x); ("Y", operand y); ("Mask", operand m)] = expect (ir_type bodies (ShuffleVector x m)).
Proof. exact cexpr_shufflevector_type_generated. Qed.
Theorem C06_shufflevector_expr_and_inst_agree : forall (bodies : ResultType.env) x y m,
  run_ctype "ShuffleVector" [("X", operand x); ("Y", operand y); ("Mask", operand m)]
  = run_type "ir.InstShuffleVector" [("X", operand x); ("Y", operand y); ("Mask", operand m)].
Proof. exact shufflevector_expr_and_inst_agree. Qed.
Theorem C06_catchswitch_type_generated : forall bodies, run_type "ir.TermCatchSwitch" [] = expect (ir_type bodies TokenResult).
Proof. exact catchswitch_type_generated. Qed.
Print Assumptions C06_cexpr_shufflevector_type_generated.
Print Assumptions C06_cexpr_conversion_type_generated.

(* ---- call, invoke, callbr on regenerated code: Sig() and Type() ---- *)
Theorem C06_callee_sig_generated :
  Forall (fun kf => forall callee, run_sig (fst kf) (snd kf) callee = expect_sig callee) callee_kinds.
Proof. exact sig_generated. Qed.
Theorem C06_callee_type_generated : forall bodies,
  Forall (fun kf => forall w callee, run_type (fst kf) [(snd kf, operand callee)] = expect (ir_type bodies (CallLike w callee)))
         callee_kinds.
Proof. exact callee_type_generated. Qed.
Theorem C06_call_parser_and_ir_agree_generated : forall bodies w callee t,
  llvm_type bodies (CallLike w callee) = Some t ->
  run_new "asm.newCallInst" (VObj "ast.CallInst" [("Typ()", reify_ty w)]) = GoEval.Ok (reify_ty t)
  /\ run_type "ir.InstCall" [("Callee", operand callee)] = GoEval.Ok (reify_ty t).
Proof. exact call_parser_and_ir_agree_generated. Qed.
Print Assumptions C06_callee_type_generated.
Print Assumptions C06_call_parser_and_ir_agree_generated.

(* ---- getelementptr on regenerated code: the Type() methods of the constant expression and the instruction ---- *)
From LLIR Require Proofs.GepRefinement Proofs.GepIndexRefinement.
Theorem C06_gep_expr_Type_generated : forall f elem src srckind ops,
  GepIndexRefinement.call_from "constant" [] (S (S (S (S f)))) "constant.ExprGetElementPtr" "Type" (GepIndexRefinement.gep_expr_object elem src srckind ops) =
  GepRefinement.expect (GepIndexRefinement.gep_expr_type elem src ops).
Proof. exact GepIndexRefinement.generated_gep_expr_Type_method_is_model. Qed.
Theorem C06_gep_inst_Type_generated : forall f elem src srckind ops, Forall GepIndexRefinement.well_named ops ->
  GepIndexRefinement.call_from "ir" [] (S (S (S (S f)))) "ir.InstGetElementPtr" "Type" (GepIndexRefinement.gep_inst_object elem src srckind ops) =
  GepRefinement.expect (GepIndexRefinement.gep_inst_type elem src ops).
Proof. exact GepIndexRefinement.generated_gep_inst_Type_method_is_model. Qed.
Print Assumptions C06_gep_expr_Type_generated.
Print Assumptions C06_gep_inst_Type_generated.
