(* C04 -- Every reference in a parsed module is the object that defines it. *)
From Coq Require Import List Bool ZArith.
From LLIR Require Import Lib.Bytes Model.Skeleton Proofs.SkeletonProofs.
From LLIR Require Import Pipeline.MicroIR Pipeline.MicroIRResolve.
Import ListNotations.

(* function level (Pipeline/MicroIRResolve.v, arbitrary ASTs; IR references are position keys of
   definitions, AST references are identifiers): the table the uses were resolved in IS the definition
   table of the function that comes out, and its identifiers are pairwise distinct ... *)
Theorem C04_translated_table : forall gidx a f, translate_func gidx a = MicroIR.Ok f ->
  exists c, scaf_params (af_params a) 0 0 = MicroIR.Ok (defs_params (f_params f) 0, c) /\
            exists c', scaf_blocks (af_blocks a) 0 c = MicroIR.Ok (defs_blocks (f_blocks f) 0, c') /\
            nodup_idents (ldefs f) = true.
Proof. exact translated_table. Qed.
(* ... so every use of a local identifier resolves to the key of the definition carrying that
   identifier in the same function (forward, backward and self references alike: the scaffold table
   exists before any use is resolved) *)
Theorem C04_use_is_def : forall gidx lidx t i o, res_op gidx lidx (ALocal t i) = MicroIR.Ok o ->
  exists k, o = OLocal t k /\ In (k, i) lidx.
Proof. exact use_is_def. Qed.

(* module level: an accepted module has every module-level use defined in its own namespace *)
Theorem C04_accepted_uses_are_defined : forall (o : oracle), fair o -> forall sort_idents l m old,
  index_defs (number_globals l 0) [] = Skeleton.Ok old -> Skeleton.translate o sort_idents l = Skeleton.Ok m ->
  forall n i t u, n <> NComdat -> get old n i = Some t -> In u (t_uses t) -> u_ns u <> NAttr ->
    get old (u_ns u) (u_id u) <> None.
Proof. exact accepted_has_no_undefined_use. Qed.

(* ... and denotes exactly one definition: the index holds one entry per (namespace, identifier), for every
   module and every map order, so the entry a use resolves to is the definition carrying that name *)
Theorem C04_index_keys_unique : forall l m, index_defs l [] = Skeleton.Ok m -> NoDup (keys m).
Proof. intros l m H. exact (index_keys_unique l [] m H (NoDup_nil _)). Qed.
Theorem C04_use_is_def_module : forall (o : oracle), fair o -> forall sort_idents l m old,
  index_defs (number_globals l 0) [] = Skeleton.Ok old -> Skeleton.translate o sort_idents l = Skeleton.Ok m ->
  forall n i t u, n <> NComdat -> get old n i = Some t -> In u (t_uses t) -> u_ns u <> NAttr ->
  exists d, In (u_ns u, u_id u, d) old /\ forall e, In e old -> key_of e = (u_ns u, u_id u) -> e = (u_ns u, u_id u, d).
Proof. exact use_is_def_module. Qed.
(* non-vacuity: a two-entity module in which the second uses the first *)
Example C04_use_is_def_module_example :
  let l := [mk NGlobal nameA KPlain []; mk NGlobal nameB KPlain [{| u_ns := NGlobal; u_id := nameA |}]] in
  is_ok (index_defs (number_globals l 0) []) = true /\ is_ok (Skeleton.translate id_oracle (fun x => x) l) = true.
Proof. split; reflexivity. Qed.
