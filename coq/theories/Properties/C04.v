(* C04 -- Every reference in a parsed module is the object that defines it. *)
From Coq Require Import List Bool ZArith.
From LLIR Require Import Lib.Bytes Model.Skeleton Proofs.SkeletonProofs.
From LLIR Require Import Pipeline.MicroIR Pipeline.MicroIRResolve.
From LLIR Require Proofs.PlaceholderProofs.
Import ListNotations.

(* function level (Pipeline/MicroIRResolve.v, arbitrary ASTs; IR references are position keys of
   definitions, AST references are identifiers): the table the uses were resolved in IS the definition
   table of the function that comes out, and its identifiers are pairwise distinct ... *)
Theorem C04_translated_table : forall gidx a f, translate_func gidx a = MicroIR.Ok f ->
  exists c, scaf_params (af_params a) 0 0 = MicroIR.Ok (defs_params (f_params f) 0, c) /\
            exists c', scaf_blocks (af_blocks a) 0 c = MicroIR.Ok (defs_blocks (f_blocks f) 0, c') /\
            nodup_idents (ldefs f) = true.
Proof. exact translated_table. Qed.
(* ... so every use of a local identifier resolves to the key of the definition carrying that
   identifier in the same function (forward, backward and self references alike: the scaffold table
   exists before any use is resolved) *)
Theorem C04_use_is_def : forall gidx lidx t i o, res_op gidx lidx (ALocal t i) = MicroIR.Ok o ->
  exists k, o = OLocal t k /\ In (k, i) lidx.
Proof. exact use_is_def. Qed.

(* module level: an accepted module has every module-level use defined in its own namespace *)
Theorem C04_accepted_uses_are_defined : forall (o : oracle), fair o -> forall sort_idents l m old,
  index_defs (number_globals l 0) [] = Skeleton.Ok old -> Skeleton.translate o sort_idents l = Skeleton.Ok m ->
  forall n i t u, n <> NComdat -> get old n i = Some t -> In u (t_uses t) -> u_ns u <> NAttr ->
    get old (u_ns u) (u_id u) <> None.
Proof. exact accepted_has_no_undefined_use. Qed.

(* ... and denotes exactly one definition: the index holds one entry per (namespace, identifier), for every
   module and every map order, so the entry a use resolves to is the definition carrying that name *)
Theorem C04_index_keys_unique : forall l m, index_defs l [] = Skeleton.Ok m -> NoDup (keys m).
Proof. intros l m H. exact (index_keys_unique l [] m H (NoDup_nil _)). Qed.
Theorem C04_use_is_def_module : forall (o : oracle), fair o -> forall sort_idents l m old,
  index_defs (number_globals l 0) [] = Skeleton.Ok old -> Skeleton.translate o sort_idents l = Skeleton.Ok m ->
  forall n i t u, n <> NComdat -> get old n i = Some t -> In u (t_uses t) -> u_ns u <> NAttr ->
  exists d, In (u_ns u, u_id u, d) old /\ forall e, In e old -> key_of e = (u_ns u, u_id u) -> e = (u_ns u, u_id u, d).
Proof. exact use_is_def_module. Qed.
(* non-vacuity: a two-entity module in which the second uses the first *)
Example C04_use_is_def_module_example :
  let l := [mk NGlobal nameA KPlain []; mk NGlobal nameB KPlain [{| u_ns := NGlobal; u_id := nameA |}]] in
  is_ok (index_defs (number_globals l 0) []) = true /\ is_ok (Skeleton.translate id_oracle (fun x => x) l) = true.
Proof. split; reflexivity. Qed.

(* placeholders and parent links (Proofs/PlaceholderProofs.v: objects are allocation indices in typed stores;
   scaffolds first, bodies in any order o2, every blockaddress constant gets a dummy block and goes on the todo
   list, the fix-up pass runs after the bodies, the metadata and the use-list orders):
   in an accepted module every blockaddress constant that was created holds a block listed by the function it
   names, that function is listed by the module, and the block is none of the dummies ... *)
Module PH := PlaceholderProofs.
Theorem C04_no_placeholder : forall (o1 o2 : oracle) a r, fair o1 -> PH.translate o1 o2 a = Skeleton.Ok r ->
  forall c co, nth_error (PH.s_consts (PH.m_st r)) c = Some co ->
  exists id par bs, In (PH.c_func co) (PH.m_tops r) /\
    nth_error (PH.s_tops (PH.m_st r)) (PH.c_func co) = Some (PH.TFunc id par bs) /\
    In (PH.c_block co) bs /\ ~ In (PH.c_block co) (PH.s_dummies (PH.m_st r)).
Proof. exact PH.no_placeholder. Qed.
(* ... so no block reachable from the module (listed by a listed function, or held by a constant of a listed
   initialiser, instruction, metadata or use-list-order site) is a dummy: each is listed by a listed function *)
Theorem C04_no_placeholder_reachable : forall (o1 o2 : oracle) a r, fair o1 -> PH.translate o1 o2 a = Skeleton.Ok r ->
  forall b, In b (PH.reach_blocks r) ->
    ~ In b (PH.s_dummies (PH.m_st r)) /\
    exists fa id par bs, In fa (PH.m_tops r) /\ nth_error (PH.s_tops (PH.m_st r)) fa = Some (PH.TFunc id par bs) /\ In b bs.
Proof. exact PH.no_placeholder_reachable. Qed.
(* parent links: a function's parent is the module, the parent of a block is the function that lists it *)
Theorem C04_parents_agree : forall (o1 o2 : oracle) a r, PH.translate o1 o2 a = Skeleton.Ok r ->
  forall fa id par bs, nth_error (PH.s_tops (PH.m_st r)) fa = Some (PH.TFunc id par bs) ->
    par = Some PH.module_addr /\
    forall b, In b bs -> exists bo, nth_error (PH.s_blocks (PH.m_st r)) b = Some bo /\ PH.b_parent bo = Some fa.
Proof. exact PH.parents_agree. Qed.
(* non-vacuity: a global initialised with the address of a block of a later function; a missing block is an error *)
Example C04_no_placeholder_example :
  PH.run id_oracle PH.rev_oracle PH.ex_forward =
    Skeleton.Ok ([Some (PH.ObsVar [Some (1, 1)]); Some (PH.ObsFunc true [(true, []); (true, [])])], []) /\
  PH.run id_oracle id_oracle {| PH.a_tops := [ {| PH.a_id := PH.f_; PH.a_body := PH.ADef [(PH.l1, [])] |} ];
                                PH.a_late := [(PH.f_, PH.l2)] |} = Skeleton.Err.
Proof. split; vm_compute; reflexivity. Qed.
Print Assumptions C04_no_placeholder.
Print Assumptions C04_no_placeholder_reachable.
Print Assumptions C04_parents_agree.
