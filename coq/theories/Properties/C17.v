(* C17 -- Metadata IDs are unique and references share node identity. *)
From Coq Require Import List Bool ZArith String.
From LLIR Require Import Model.MetadataIDs Gen.Printers Gen.FieldFlow.
From LLIR Require Import Proofs.MetadataIDsProofs Proofs.MetadataFieldProofs Proofs.FieldFlowProofs.
From LLIR Require Model.Skeleton Proofs.SkeletonProofs.
From LLIR Require Model.GoEval Proofs.IdPassRefinement.
Import ListNotations.
Local Open Scope Z_scope.

(* AssignMetadataIDs on any list of definitions (ID -1 = not yet assigned): when it succeeds the
   result has the same length, every explicit ID is kept in place, and all IDs are pairwise distinct *)
Theorem C17_md_assign_spec : forall ids out, assign_md_ids ids = Ok out ->
  List.length out = List.length ids
  /\ (forall i, (i < List.length ids)%nat -> nth i ids 0 <> -1 -> nth i out 0 = nth i ids 0)
  /\ NoDup out.
Proof. exact md_assign_spec. Qed.
(* it fails exactly... at least whenever two explicit IDs collide *)
Theorem C17_md_duplicate_is_error : forall ids, ~ NoDup (explicit ids) -> assign_md_ids ids = Err.
Proof. exact md_duplicate_is_error. Qed.
(* an unassigned definition receives the smallest unused number above the previous fresh one *)
Theorem C17_next_id_is_smallest_unused : forall fuel cur used, (List.length (above cur used) < fuel)%nat ->
  let n := next_id fuel cur used in
  cur < n /\ ~ In n used /\ forall m, cur < m < n -> In m used.
Proof. exact next_id_spec. Qed.
(* fresh IDs are handed out in increasing order of the definitions *)
Theorem C17_fresh_ids_increasing : forall ids cur used i j,
  (i < j < List.length ids)%nat -> nth i ids 0 = -1 -> nth j ids 0 = -1 ->
  nth i (fill ids cur used) 0 < nth j (fill ids cur used) 0.
Proof. exact fill_fresh_increasing. Qed.

(* the 28 specialised node kinds, field by field, over the regenerated translators asm.irDI* and
   the regenerated struct table: each AST field kind sets exactly one field of the node, no two kinds
   set the same field, and the fields set are exactly the struct's fields (none forgotten or invented) *)
Theorem C17_one_field_per_case :
  forallb (fun p => forallb (fun c => Nat.eqb (List.length (snd c)) 1) (cases_of p)) with_cases = true.
Proof. exact one_field_per_case. Qed.
Theorem C17_no_field_set_twice : forallb (fun p => nodupb (flat_map snd (cases_of p))) with_cases = true.
Proof. exact no_field_set_twice. Qed.
Theorem C17_every_node_field_has_a_case :
  forallb (fun p => let a := flat_map snd (cases_of p) in let f := struct_fields (node_of p) in
                    forallb (fun x => MetadataFieldProofs.mem x a) f && forallb (fun x => MetadataFieldProofs.mem x f) a) with_cases = true.
Proof. exact every_node_field_has_a_case. Qed.
(* and on the printer side every field of every node kind is printed *)
Theorem C17_every_md_field_is_printed :
  forallb (fun f => forallb (fun x => FieldFlowProofs.mem x md_printed_elsewhere || FieldFlowProofs.mem x (f_printed f)) (f_fields f)) md_flows = true.
Proof. exact every_md_field_is_printed. Qed.
Theorem C17_every_md_field_is_translated :
  forallb (fun f => forallb (fun x => FieldFlowProofs.mem x md_set_via_interface || FieldFlowProofs.mem x (f_assigned f)) (f_fields f)) md_flows = true.
Proof. exact every_md_field_is_translated. Qed.

Example C17_example_sparse_ids : assign_md_ids [-1; 3; -1; 0; -1] = Ok [1; 3; 2; 0; 4].
Proof. vm_compute. reflexivity. Qed.

(* references share node identity, on the module-level skeleton of the translator (Model/Skeleton.v: any number
   of top-level entities, any fair map order): in an accepted module a metadata reference !N or !name written
   anywhere -- in another metadata definition (forward, backward, self and mutual references alike: the index is
   complete before any reference is resolved), in a global, a function or an attribute group -- denotes exactly
   one entry of the index, the definition numbered N (resp. named name); two references with the same ID
   therefore denote the same definition *)
Theorem C17_md_ref_is_def : forall (o : Skeleton.oracle), Skeleton.fair o -> forall sort_idents l m old,
  Skeleton.index_defs (Skeleton.number_globals l 0) [] = Skeleton.Ok old ->
  Skeleton.translate o sort_idents l = Skeleton.Ok m ->
  forall n i t u, n <> Skeleton.NComdat -> Skeleton.get old n i = Some t -> In u (Skeleton.t_uses t) ->
  Skeleton.u_ns u = Skeleton.NMeta ->
  exists d, In (Skeleton.NMeta, Skeleton.u_id u, d) old /\
            forall e, In e old -> SkeletonProofs.key_of e = (Skeleton.NMeta, Skeleton.u_id u) -> e = (Skeleton.NMeta, Skeleton.u_id u, d).
Proof.
  intros o Hf s l m old Hi Ht n i t u Hn Hg Hu Hm.
  destruct (SkeletonProofs.use_is_def_module o Hf s l m old Hi Ht n i t u Hn Hg Hu) as [d Hd]; [rewrite Hm; discriminate|].
  rewrite Hm in Hd. exists d. exact Hd.
Qed.
(* a reference to a metadata ID that no definition carries is an error, never a fresh empty node *)
Example C17_undefined_md_ref_rejected :
  Skeleton.translate SkeletonProofs.id_oracle (fun l => l)
    [SkeletonProofs.mk Skeleton.NMeta (Skeleton.INum 0) Skeleton.KPlain [{| Skeleton.u_ns := Skeleton.NMeta; Skeleton.u_id := Skeleton.INum 1 |}]] = Skeleton.Err.
Proof. reflexivity. Qed.
(* a self-reference and a forward reference are accepted *)
Example C17_cyclic_md_refs_accepted :
  SkeletonProofs.is_ok (Skeleton.translate SkeletonProofs.id_oracle (fun l => l)
    [SkeletonProofs.mk Skeleton.NMeta (Skeleton.INum 0) Skeleton.KPlain [{| Skeleton.u_ns := Skeleton.NMeta; Skeleton.u_id := Skeleton.INum 0 |}; {| Skeleton.u_ns := Skeleton.NMeta; Skeleton.u_id := Skeleton.INum 1 |}];
     SkeletonProofs.mk Skeleton.NMeta (Skeleton.INum 1) Skeleton.KPlain [{| Skeleton.u_ns := Skeleton.NMeta; Skeleton.u_id := Skeleton.INum 0 |}]]) = true.
Proof. reflexivity. Qed.

(* ---- the ID pass as regenerated from ir/module.go ---- *)
(* the regenerated AssignMetadataIDs (Gen/Printers.v table idpass_bodies: the nextID closure closure-converted, the
   mutex calls dropped, `for {}` run on loop fuel N) on a module whose metadata definitions carry the IDs ids (-1 =
   unassigned), of any node kinds and with any other fields, leaves the module with exactly the ID vector the model
   assign_md_ids computes and returns nil -- or returns an error and the module unchanged where the model reports a
   collision; so every theorem above about assign_md_ids is a theorem about the code as it is now *)
Theorem C17_generated_assign_metadata_ids_is_the_model :
  forall (shs : list IdPassRefinement.shape) (ids : list Z) (rest : list (String.string * GoEval.val)) (N depth : nat),
  List.length shs = List.length ids -> Forall IdPassRefinement.wf_shape shs -> (List.length ids + 2 <= N)%nat -> (2 <= depth)%nat ->
  IdPassRefinement.run_idpass IdPassRefinement.no_impl (IdPassRefinement.fuel_env N) depth "ir.Module"%string "AssignMetadataIDs"%string
    (IdPassRefinement.modv rest (IdPassRefinement.mdos shs ids)) =
  match MetadataIDs.assign_md_ids ids with
  | MetadataIDs.Ok ids' => GoEval.Ok (IdPassRefinement.modv rest (IdPassRefinement.mdos shs ids'), GoEval.VNil)
  | MetadataIDs.Err => GoEval.Ok (IdPassRefinement.modv rest (IdPassRefinement.mdos shs ids), IdPassRefinement.an_error)
  end.
Proof. exact IdPassRefinement.generated_assign_metadata_ids_is_model. Qed.
Print Assumptions C17_generated_assign_metadata_ids_is_the_model.
