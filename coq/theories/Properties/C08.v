(* C08 -- Unnamed values are numbered exactly as LLVM numbers them. *)
From Coq Require Import List Bool ZArith String.
From LLIR Require Import Model.Numbering Proofs.NumberingProofs.
From LLIR Require Pipeline.MicroIR Pipeline.MicroIRProofs Pipeline.MicroIRNumbering.
From LLIR Require Model.GoEval Proofs.IdPassRefinement.
Import ListNotations.
Local Open Scope Z_scope.

(* The walk of AssignIDs (parameters, then per block the block and each instruction/terminator;
   it_value = false for store, fence and void call/invoke/callbr, which consume no number) succeeds
   exactly on states whose stored IDs are unset or equal to their position, and then returns LLVM's
   numbering (the k-th unnamed value gets number k), for every function shape *)
Theorem C08_assign_spec : forall l k,
  (consistent l k -> assign l k = Ok (llvm_number l k)) /\ (assign l k <> Err -> consistent l k).
Proof. exact assign_spec. Qed.
Theorem C08_assign_accepts_iff_consistent : forall l, (exists l', assign_ids l = Ok l') <-> consistent l 0.
Proof. exact assign_ok_iff. Qed.
Theorem C08_assign_is_llvm_numbering : forall l l', assign_ids l = Ok l' -> l' = llvm_number l 0.
Proof. exact assign_is_llvm. Qed.
(* a never-numbered function is always accepted *)
Theorem C08_fresh_function_accepted : forall l, (forall x, In x l -> numbered x = true -> it_id x = 0) -> forall k, consistent l k.
Proof. exact fresh_consistent. Qed.
(* numbering an already numbered function again changes nothing *)
Theorem C08_assign_idempotent : forall l l', assign_ids l = Ok l' -> assign_ids l' = Ok l'.
Proof. exact assign_idempotent. Qed.
(* named values, store/fence and void calls are left alone and consume no number *)
Theorem C08_unnumbered_untouched : forall l k i x, nth_error l i = Some x -> numbered x = false ->
  nth_error (llvm_number l k) i = Some x.
Proof. exact unnumbered_untouched. Qed.

(* module level: the parser numbers unnamed globals textually, which is LLVM's numbering *)
Theorem C08_parser_numbers_globals_as_llvm : forall l, (forall g, In g l -> it_value (g_item g) = true) -> forall k,
  map g_item (parser_number l k) = llvm_number (map g_item l) k.
Proof. exact parser_number_is_llvm. Qed.
(* printing never fails on a module the parser produced (after fix 37c6605), whatever the textual
   interleaving of named and unnamed global variables, aliases, ifuncs and functions; the numbering is
   LLVM's for the printed order *)
Theorem C08_print_after_parse_never_fails : forall l, (forall g, In g l -> it_value (g_item g) = true) ->
  print_after_parse l = Ok (map g_item (parse_module l))
  /\ map g_item (parse_module l) = llvm_number (map g_item (group_order (parser_number l 0))) 0.
Proof. exact print_after_parse_ok. Qed.
(* what the statement looked like on the unfixed code (KF-13, fixed): refuted *)
Theorem C08_print_after_parse_unfixed_refuted :
  exists l, (forall g, In g l -> it_value (g_item g) = true) /\ print_after_parse_unfixed l = Err.
Proof. exact print_after_parse_unfixed_refuted. Qed.

(* recorded blind spot (KF-20): 0 doubles as unset, so an explicit wrong %0 is not diagnosed *)
Example C08_wrong_zero_accepted :
  let l := [ {| it_named := false; it_id := 0; it_value := true |};
             {| it_named := false; it_id := 0; it_value := true |} ] in
  exists l', assign_ids l = Ok l'.
Proof. exact wrong_zero_accepted. Qed.

(* the parser side, on the function level of the uIR pipeline (arbitrary ASTs): the numeric identifiers of the
   definitions of a translated function are 0, 1, 2, ... in walk order -- a written number that is not the
   next one is an error (def_ident) -- and a use %N the translation accepted is bound to the definition
   carrying N, which is the (N+1)-th of the numbered definitions: the value LLVM binds *)
Theorem C08_translated_numbering : forall gidx a f, MicroIR.translate_func gidx a = MicroIR.Ok f ->
  exists n, MicroIRNumbering.nums (MicroIR.ldefs f) = MicroIRNumbering.zseq 0 n.
Proof. exact MicroIRNumbering.translated_numbering. Qed.
Theorem C08_use_binds_nth_unnamed : forall gidx a f t N o,
  MicroIR.translate_func gidx a = MicroIR.Ok f ->
  MicroIR.res_op gidx (MicroIR.ldefs f) (MicroIR.ALocal t (MicroIR.Id N)) = MicroIR.Ok o ->
  exists k, o = MicroIR.OLocal t k /\ In (k, MicroIR.Id N) (MicroIR.ldefs f) /\ (0 <= N) /\
            nth_error (MicroIRNumbering.nums (MicroIR.ldefs f)) (Z.to_nat N) = Some N.
Proof. exact MicroIRNumbering.use_binds_nth_unnamed. Qed.
(* non-vacuity: the example function of the pipeline (a named and an unnamed parameter, an unnamed block, an
   unnamed and a named instruction; it is the translation of its own embedding, MicroIRProofs.ex_roundtrip) *)
Example C08_numbering_example : MicroIRNumbering.nums (MicroIR.ldefs MicroIRProofs.ex_func) = [0; 1; 2].
Proof. reflexivity. Qed.

(* ---- the ID passes as regenerated from ir/func.go and ir/module.go ---- *)
(* the regenerated Func.AssignIDs (table idpass_bodies: the setName closure closure-converted, mutex calls dropped)
   on a function of any shape F (parameters, blocks, instructions and terminators with any types, names and other
   fields; instructions that are not namedVar and namedVars of void type are skipped as in Go) whose numbered
   entities carry the stored IDs ids leaves exactly the IDs the model assign_ids computes and returns nil -- and
   returns an error where the model does (the receiver is then as the walk left it) *)
Theorem C08_generated_assign_ids_is_the_model :
  forall (impl : String.string -> String.string -> bool) (F : IdPassRefinement.fshape) (ids : list Z) (depth : nat),
  IdPassRefinement.wf_fshape impl F -> List.length ids = List.length (IdPassRefinement.func_flags F) -> (2 <= depth)%nat ->
  match Numbering.assign_ids (IdPassRefinement.mk_items (IdPassRefinement.func_flags F) ids) with
  | Numbering.Ok l' =>
      IdPassRefinement.run_idpass impl IdPassRefinement.ids_env depth "ir.Func"%string "AssignIDs"%string (IdPassRefinement.func_obj F ids)
      = GoEval.Ok (IdPassRefinement.func_obj F (map Numbering.it_id l'), GoEval.VNil)
  | Numbering.Err =>
      exists f', IdPassRefinement.run_idpass impl IdPassRefinement.ids_env depth "ir.Func"%string "AssignIDs"%string (IdPassRefinement.func_obj F ids)
                 = GoEval.Ok (f', IdPassRefinement.an_error)
  end.
Proof. exact IdPassRefinement.generated_assign_ids_is_model. Qed.
(* the same for Module.AssignGlobalIDs over globals, aliases, ifuncs and functions of a module of any shape *)
Theorem C08_generated_assign_global_ids_is_the_model :
  forall (M : IdPassRefinement.mshape) (ids : list Z) (depth : nat),
  IdPassRefinement.wf_mshape M -> List.length ids = List.length (IdPassRefinement.mod_flags M) -> (2 <= depth)%nat ->
  match Numbering.assign_ids (IdPassRefinement.mk_items (IdPassRefinement.mod_flags M) ids) with
  | Numbering.Ok l' =>
      IdPassRefinement.run_idpass IdPassRefinement.no_impl [] depth "ir.Module"%string "AssignGlobalIDs"%string (IdPassRefinement.mod_obj M ids)
      = GoEval.Ok (IdPassRefinement.mod_obj M (map Numbering.it_id l'), GoEval.VNil)
  | Numbering.Err =>
      exists m', IdPassRefinement.run_idpass IdPassRefinement.no_impl [] depth "ir.Module"%string "AssignGlobalIDs"%string (IdPassRefinement.mod_obj M ids)
                 = GoEval.Ok (m', IdPassRefinement.an_error)
  end.
Proof. exact IdPassRefinement.generated_assign_global_ids_is_model. Qed.
Print Assumptions C08_generated_assign_ids_is_the_model.
Print Assumptions C08_generated_assign_global_ids_is_the_model.
