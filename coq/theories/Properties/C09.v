(* C09 -- Integer literals keep their exact value through print and parse. *)
From Coq Require Import List Bool NArith ZArith.
From LLIR Require Import Lib.Bytes Lib.Radix Model.IntLit Proofs.IntLitProofs.
From LLIR Require Proofs.IntLitRefinement.
Import ListNotations.
Local Open Scope Z_scope.

(* whatever the decimal/hexadecimal heuristic chooses, for every width other than 1 and every integer,
   the printed literal parses back to exactly that integer *)
Theorem C09_print_parse : forall (choose_hex : Z -> bool) w x lit,
  w <> 1%N -> ident choose_hex w x = Ok lit -> parse_int w lit = Ok x.
Proof. exact print_parse. Qed.

Theorem C09_print_parse_i1 : forall (choose_hex : Z -> bool) x lit,
  (x = 0 \/ x = 1) -> ident choose_hex 1 x = Ok lit -> parse_int 1 lit = Ok x.
Proof. exact print_parse_i1. Qed.

(* Ident never fails for a width other than 1 *)
Theorem C09_ident_total_wide : forall (choose_hex : Z -> bool) w x, w <> 1%N -> exists lit, ident choose_hex w x = Ok lit.
Proof.
  intros ch w x Hw. unfold ident. apply N.eqb_neq in Hw. rewrite Hw.
  destruct ((4096 <=? x) && ch x); eexists; reflexivity.
Qed.

(* meaning of the accepted notations *)
Theorem C09_u0x_denotes_the_hex_value : forall w n, parse_int w (p_u0x ++ print_hex_N n) = Ok (Z.of_N n).
Proof. exact parse_u0x_value. Qed.
Theorem C09_s0x_is_twos_complement_by_type_width : forall w n, (0 < w)%N -> (n < 2 ^ w)%N ->
  parse_int w (p_s0x ++ print_hex_N n) =
  Ok (if (Z.of_N n <? 2 ^ (Z.of_N w - 1)) then Z.of_N n else Z.of_N n - 2 ^ Z.of_N w).
Proof. exact parse_s0x_value. Qed.

(* known finding KF-05: i1 -1 is representable (the parser accepts it) but Ident panics on it *)
Theorem C09_ident_total_i1_refuted : forall (choose_hex : Z -> bool),
  exists x, (- 2 ^ 0 <= x < 2 ^ 1) /\ ident choose_hex 1 x = Panic.
Proof. exact ident_i1_refuted. Qed.

Example C09_example_values :
  parse_int 16 (p_s0x ++ print_hex_N 65535) = Ok (-1) /\ parse_int 16 (p_u0x ++ print_hex_N 65535) = Ok 65535
  /\ ident (fun _ => true) 32 65536 = Ok (p_u0x ++ print_hex_N 65536) /\ ident (fun _ => true) 32 (-7) = Ok (print_Z (-7)).
Proof. vm_compute. repeat split. Qed.

(* the tie by regeneration: constant.NewIntFromString as it stands in ir/constant/const_int.go (translated into
   Gen/Printers.v on every run, evaluated by Model/GoEval.v; the five math/big methods it uses carry their
   mathematical meaning, IntLitRefinement.ext) computes exactly what the model parse_int computes, for every
   width but 0 and every text, accepted or not: an i1 keyword returns the shared True / False object, u0x / s0x /
   decimal return a new constant of the given type with the model's value, everything else the error result.
   The statements above about parse_int are therefore statements about the code *)
Theorem C09_generated_constructor_is_the_model : forall w s, (0 < w)%N ->
  IntLitRefinement.new_int_from_string w s = IntLitRefinement.expected w s.
Proof. exact IntLitRefinement.generated_new_int_is_parse_int. Qed.
Print Assumptions C09_generated_constructor_is_the_model.
