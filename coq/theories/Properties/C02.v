(* C02 -- Printed output is a fixpoint of parse and print (partial: uIR fragment + regenerated table). *)
From Coq Require Import List Bool ZArith String.
From LLIR Require Import Gen.Printers Reviewed.Printers.
From LLIR Require Import Pipeline.MicroIR Pipeline.MicroIRProofs Pipeline.MicroIRSpelling.
Import ListNotations.

(* on uIR: parsing what was printed from a well-formed module gives the module back ... *)
Theorem C02_translate_embed : forall choose_hex m, wf m -> translate (embed choose_hex m) = MicroIR.Ok m.
Proof. exact translate_embed. Qed.
(* ... hence printing again reproduces the printed AST: normalisation takes exactly one step and the
   two parsed modules are equal *)
Theorem C02_embed_fixpoint : forall choose_hex m m', wf m -> translate (embed choose_hex m) = MicroIR.Ok m' ->
  embed choose_hex m' = embed choose_hex m.
Proof. exact embed_fixpoint. Qed.
(* two inputs that translate to the same module print identically (non-canonical spellings: decimal or
   hex literals, explicit or implicit numbering converge in one step) *)
Theorem C02_same_translation_same_spelling : forall choose_hex a a' m,
  translate a = MicroIR.Ok m -> translate a' = MicroIR.Ok m -> erase choose_hex a = erase choose_hex a'.
Proof. exact same_translation_same_spelling. Qed.
(* the premises are satisfiable: a module with an unnamed global, a forward reference to a later
   function, an unnamed parameter and block, a loop and a void call *)
Example C02_example_module_wf : wf ex_module.
Proof. exact ex_module_wf. Qed.
Theorem C02_printers_match : printers = reviewed_printers.
Proof. exact printers_match. Qed.
