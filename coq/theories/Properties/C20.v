(* C20 -- Definitions are printed in a canonical, input-order-independent order.
   Only statements, each closed by an existing lemma, and their assumptions. *)
From Coq Require Import List Bool Arith NArith ZArith Sorting.Sorted Sorting.Permutation.
From Coq Require Import Strings.String.
From LLIR Require Model.GoEval Proofs.NatsortRefinement Lib.Bytes.
From LLIR Require Import Lib.Bytes Model.Natsort Model.Assemble Gen.Printers Model.GoEval.
From LLIR Require Import Proofs.NatsortProofs Proofs.NatsortNumeric Proofs.AssembleProofs Proofs.ObserverProofs.
Import ListNotations.
Local Open Scope list_scope.

(* natsort.Less (the Go loop, Model.Natsort.less) is a strict total order on all byte strings *)
Theorem C20_less_irreflexive : forall s, less s s = false.
Proof. exact less_irrefl. Qed.
Theorem C20_less_asymmetric : forall s t, less s t = true -> less t s = false.
Proof. exact less_asym. Qed.
Theorem C20_less_transitive : forall s t u, less s t = true -> less t u = true -> less s u = true.
Proof. exact less_trans. Qed.
Theorem C20_less_total : forall s t, s <> t -> less s t = true \/ less t s = true.
Proof. exact less_total. Qed.

(* it is the lexicographic order on the token view of the two strings ... *)
Theorem C20_less_is_token_order : forall s t, less s t = lessk s t.
Proof. exact less_eq_lessk. Qed.
(* ... whose digit-run tokens are well formed (all digits, no leading zero) ... *)
Theorem C20_tokens_well_formed : forall fuel s, Forall tok_wf (key fuel s).
Proof. exact key_tokens_wf. Qed.
(* ... and are compared by numeric value, ties broken by the number of leading zeros *)
Theorem C20_digit_runs_by_value : forall d1 z1 d2 z2,
  all_digits d1 -> all_digits d2 -> no_lead_zero d1 -> no_lead_zero d2 ->
  tok_ltb (Num d1 z1) (Num d2 z2) = true <->
  (dval d1 < dval d2)%N \/ (dval d1 = dval d2 /\ z1 < z2).
Proof. exact num_tok_numeric. Qed.

(* the same on whole strings: two names that agree up to a digit run (p is empty or ends in a non-digit, the
   runs a and b are complete: what follows does not start with a digit) are ordered by the value of the
   run, then by the number of leading zeros, then by what follows *)
Theorem C20_less_by_digit_run : forall p a b r r',
  end_nd p = true -> a <> [] -> b <> [] -> digitsb a = true -> digitsb b = true ->
  start_nd r = true -> start_nd r' = true ->
  less (p ++ a ++ r) (p ++ b ++ r') =
    if (dval a <? dval b)%N then true
    else if (dval b <? dval a)%N then false
    else if Nat.ltb (zeros a) (zeros b) then true
    else if Nat.ltb (zeros b) (zeros a) then false
    else less r r'.
Proof. exact less_by_digit_run. Qed.
Theorem C20_less_numeric : forall p a b r r',
  end_nd p = true -> a <> [] -> b <> [] -> digitsb a = true -> digitsb b = true ->
  start_nd r = true -> start_nd r' = true -> (dval a < dval b)%N ->
  less (p ++ a ++ r) (p ++ b ++ r') = true.
Proof. exact less_numeric. Qed.
Example C20_example_numeric :
  end_nd (bytes_of_string "t.") = true /\ digitsb (bytes_of_string "9") = true /\
  digitsb (bytes_of_string "0010") = true /\ start_nd (bytes_of_string ".x") = true /\ start_nd [] = true /\
  (dval (bytes_of_string "9") < dval (bytes_of_string "0010"))%N /\
  less (bytes_of_string "t.9.x") (bytes_of_string "t.0010") = true.
Proof. vm_compute. repeat split. Qed.

(* type definitions, comdats, named metadata: whatever order the Go map is iterated in and whichever
   correct sort is used, the assembled slice is the same *)
Theorem C20_natural_order_slices_independent_of_input_order :
  forall (V : Type) sort1 sort2 (m1 m2 : list (bytes * V)),
  sort_ok bytes less sort1 -> sort_ok bytes less sort2 -> NoDup (map fst m1) -> Permutation m1 m2 ->
  assemble bytes_eqb sort1 m1 = assemble bytes_eqb sort2 m2.
Proof. exact natsort_assemble_order_independent. Qed.
(* attribute groups and metadata definitions: ascending ID *)
Theorem C20_id_order_slices_independent_of_input_order :
  forall (V : Type) sort1 sort2 (m1 m2 : list (Z * V)),
  sort_ok Z Z.ltb sort1 -> sort_ok Z Z.ltb sort2 -> NoDup (map fst m1) -> Permutation m1 m2 ->
  assemble Z.eqb sort1 m1 = assemble Z.eqb sort2 m2.
Proof. exact id_assemble_order_independent. Qed.
(* the promise made about the sort is satisfiable *)
Theorem C20_sort_contract_satisfiable :
  sort_ok bytes less (isort less).
Proof. apply isort_ok; [exact less_trans|exact less_total]. Qed.

(* globals, aliases, ifuncs, functions keep their textual order, each kind separately *)
Theorem C20_globals_keep_textual_order : forall (G : Type) (kind : G -> gkind) order k x y,
  (exists a b c, of_kind kind k order = a ++ x :: b ++ y :: c) ->
  exists a b c, order = a ++ x :: b ++ y :: c.
Proof. exact globals_keep_textual_order. Qed.
Theorem C20_globals_permutation_invariant : forall (G : Type) (kind : G -> gkind) o1 o2,
  (forall k, of_kind kind k o1 = of_kind kind k o2) -> assemble_globals kind o1 = assemble_globals kind o2.
Proof. exact globals_permutation_invariant. Qed.

(* regenerated tie: the only range over a Go map in any printing body is the key collection of
   Module.WriteTo over NamedMetadataDefs (the keys are sorted by natsort.Strings before use) *)
Theorem C20_the_one_map_range :
  map (fun p => (p_type p, p_method p, flat_map map_ranges (p_body p)))
      (filter (fun p => negb (match flat_map map_ranges (p_body p) with [] => true | _ => false end)) observers)
  = [("ir.Module", "WriteTo", [[SLet false ["mdNames"] (ECall (EId "append") [EId "mdNames"; EId "mdName"])]])]%string.
Proof. exact the_one_map_range. Qed.

(* non-vacuity: abc2 < abc12 < abc012, and a two-entry map in both iteration orders *)
Example C20_example_order :
  less (bytes_of_string "abc2") (bytes_of_string "abc12") = true /\
  less (bytes_of_string "abc12") (bytes_of_string "abc012") = true /\
  less (bytes_of_string "abc012") (bytes_of_string "abc12") = false.
Proof. vm_compute. repeat split. Qed.

(* the tie by regeneration: natsort.Less and isdigit as they stand in internal/natsort/natsort.go (translated into
   the table natsort_bodies of Gen/Printers.v on every run, with while loops, string indexing and slicing; run by
   Model/GoEval.v, every loop bounded by 1 + len a + len b rounds, running out being a failure) compute exactly the
   model's less, for all byte strings: the statements above about less are statements about the code *)
Theorem C20_generated_less_is_the_model : forall a b : Bytes.bytes,
  NatsortRefinement.run_less a b = GoEval.Ok (GoEval.VBool (Natsort.less a b)).
Proof. exact NatsortRefinement.generated_less_is_model. Qed.
Print Assumptions C20_generated_less_is_the_model.
