(* C13 -- A module can be printed from many goroutines at once. *)
From Coq Require Import List Bool Arith ZArith String.
From LLIR Require Gen.Ctors Proofs.CtorProofs Proofs.ParserCacheProofs.
From LLIR Require Import Model.Concurrency Gen.Locks Gen.Printers Proofs.ConcurrencyProofs Proofs.GenTables Proofs.ObserverProofs Proofs.CacheProofs.
Import ListNotations.

(* Model/Concurrency.v: any number of printer threads; each takes the mutex of the ID pass, walks the
   unnamed values writing their IDs (always, or only when the stored ID differs: [guarded]), releases
   it, and then reads the IDs outside the mutex while printing.  A race is a pair of co-enabled
   conflicting accesses (one a write) to the same cell, not both inside the mutex. *)

(* with guarded writes no reachable state has a data race, for any number of threads and any number
   of unnamed values ... *)
Theorem C13_guarded_race_free : forall (expected : list Z) s0 s,
  initial expected s0 -> reachable true expected s0 s -> ~ race true expected s.
Proof. exact guarded_race_free. Qed.
(* ... and every ID read while printing is the final, sequentially assigned one: each call returns
   the text a lone sequential call returns *)
Theorem C13_printed_ids_are_final : forall (expected : list Z) guarded s0 s t j,
  initial expected s0 -> reachable guarded expected s0 s ->
  nth_error (threads s) t = Some (Outside j) -> j < k expected -> cell s j = exp expected j.
Proof. exact printed_ids_are_final. Qed.
(* with unconditional writes two threads and one unnamed value suffice for a race *)
Theorem C13_unguarded_race : exists s0 s, initial [0%Z] s0 /\ reachable false [0%Z] s0 s /\ race false [0%Z] s.
Proof. exact unguarded_race. Qed.

(* regenerated tie (Gen/Locks.v, from ir/func.go and ir/module.go as they are now): the three ID
   passes take the lock and release it by defer *)
Theorem C13_passes_locked : forallb (fun r => l_locked r && l_unlock_deferred r) lock_rows = true.
Proof. exact passes_locked. Qed.
(* the metadata pass writes only IDs that are unset *)
Theorem C13_metadata_ids_guarded : guarded_of "AssignMetadataIDs" = true.
Proof. exact metadata_ids_guarded. Qed.
(* the local and the global ID pass, as they are in the source now (after fix 0f.. 'assign an ID only
   when it changes'; KF-14): their writes are guarded, so printing is race free on the extracted
   access pattern, for any number of threads and unnamed values *)
Theorem C13_assign_ids_guarded : guarded_of "AssignIDs" = true /\ guarded_of "AssignGlobalIDs" = true.
Proof. exact assign_ids_guarded. Qed.
Theorem C13_local_ids_race_free_now : forall expected s0 s,
  initial expected s0 -> reachable (guarded_of "AssignIDs") expected s0 s -> ~ race (guarded_of "AssignIDs") expected s.
Proof. exact local_ids_race_free_now. Qed.
Theorem C13_global_ids_race_free_now : forall expected s0 s,
  initial expected s0 -> reachable (guarded_of "AssignGlobalIDs") expected s0 s -> ~ race (guarded_of "AssignGlobalIDs") expected s.
Proof. exact global_ids_race_free_now. Qed.

(* outside the three ID passes, what printing executes (the regenerated bodies of all 491 String / LLString /
   Ident / Type / WriteTo methods of ir, ir/types, ir/constant, ir/metadata, as they are in the source now)
   writes to no object that existed before the call, except that a Type method fills its own empty cache:
   every such write sits under the test `recv.Typ == nil`.  The constructors and the parser fill these
   caches, so printers of a module built through them only read (the assumption is observed by the race
   runs, which also cover modules whose fields were assigned after the constructors). *)
Theorem C13_printing_writes_only_empty_type_caches : forallb write_ok observers = true.
Proof. exact observers_write_only_the_type_cache. Qed.
(* and the only effectful methods printing calls are the three ID passes, from Func.LLString and Module.WriteTo *)
Theorem C13_printing_calls_only_id_passes :
  forallb (fun p => forallb (fun m => ObserverProofs.mem m pure_calls || ObserverProofs.mem m id_passes) (flat_map scalls (p_body p))) observers = true.
Proof. exact observers_call_only_id_passes. Qed.
Theorem C13_id_passes_called_from :
  map (fun p => (p_type p, p_method p)) (filter (fun p => existsb (fun m => ObserverProofs.mem m id_passes) (flat_map scalls (p_body p))) observers)
  = [("ir.Func", "LLString"); ("ir.Module", "WriteTo")]%string.
Proof. exact id_passes_called_from. Qed.

(* the caches are filled before any observer runs: every New* constructor of a type with a lazily filled Typ
   cache (60 types, 61 constructors, regenerated tables) calls Type() on the new object; the parser's own
   constructions are the two statements after these *)
Theorem C13_constructors_fill_type_caches :
  forallb (fun c => negb (caches c) || CtorProofs.mem "Type" (Ctors.c_calls c)) Ctors.ctors = true.
Proof. exact constructors_fill_type_caches. Qed.
Theorem C13_caching_types_have_constructors :
  forallb (fun tm => existsb (fun c => String.eqb (fst tm) (ctor_target c)) Ctors.ctors) caching_observers = true.
Proof. exact caching_types_have_constructors. Qed.

(* the parser: over all 350 regenerated bodies of package asm, every composite literal of a type with such a cache
   either carries its Typ field, or the body that creates it calls Type() or assigns Typ before returning; and
   every one of the 60 caching types is created by the parser in one of the two covered ways (a literal, 41 types,
   or a New* constructor, 38 types), so no object with an empty cache leaves the parser *)
Theorem C13_parser_fills_type_caches : ParserCacheProofs.unfilled = [].
Proof. exact ParserCacheProofs.parser_fills_type_caches. Qed.
Theorem C13_parser_creates_every_caching_type : ParserCacheProofs.not_created_by_parser = [].
Proof. exact ParserCacheProofs.parser_creates_every_caching_type. Qed.
Print Assumptions C13_parser_fills_type_caches.
Print Assumptions C13_parser_creates_every_caching_type.
