(* R2: nothing the input said is dropped, altered or invented.
   [erase] rewrites an AST into canonical spelling without resolving anything:
   omitted identifiers become explicit (the LLVM counter), integer literals are
   re-spelled the way the printer spells them, unnamed globals get their textual
   number.  It keeps every opcode, flag, type, operand, label and name in place.
   Theorem: if translate a = Ok m then erase a = Ok (embed m), i.e. the printed
   module is the input in canonical spelling; two inputs with the same
   translation differ in spelling only. *)
From Coq Require Import List Bool Arith NArith ZArith Lia.
From LLIR Require Import Lib.Bytes Model.Types Model.IntLit Proofs.IntLitProofs
  Pipeline.MicroIR Pipeline.MicroIRProofs Pipeline.MicroIRResolve.
Import ListNotations.

Arguments def_ident : simpl never.
Arguments gdef_ident : simpl never.

Section Erase.
  Variable choose_hex : Z -> bool.

  Definition erase_const (c : aconst) : outcome aconst :=
    match c with
    | ACInt w lit => match parse_int w lit with
                     | IntLit.Ok v => Ok (ACInt w (lit_of choose_hex w v))
                     | IntLit.Err => Err | IntLit.Panic => Panic end
    | _ => Ok c
    end.
  Definition erase_op (o : aoperand) : outcome aoperand :=
    match o with AConst c => do c' <- erase_const c; Ok (AConst c') | ALocal _ _ => Ok o end.
  Fixpoint erase_ops (l : list aoperand) : outcome (list aoperand) :=
    match l with [] => Ok [] | o :: r => do o' <- erase_op o; do r' <- erase_ops r; Ok (o' :: r') end.
  Definition erase_inst (ctr : Z) (x : ainst) : outcome (ainst * Z) :=
    do '(d, c1) <- match a_def x with
                   | Some d => do '(id, c) <- def_ident d ctr; Ok (Some (Some id), c)
                   | None => Ok (None, ctr)
                   end;
    do ops <- erase_ops (a_ops x);
    Ok ({| a_def := d; a_op := a_op x; a_enums := a_enums x; a_tys := a_tys x; a_ops := ops; a_lbls := a_lbls x |}, c1).
  Fixpoint erase_insts (ctr : Z) (l : list ainst) : outcome (list ainst * Z) :=
    match l with
    | [] => Ok ([], ctr)
    | x :: r => do '(x', c1) <- erase_inst ctr x; do '(r', c2) <- erase_insts c1 r; Ok (x' :: r', c2)
    end.
  Fixpoint erase_blocks (ctr : Z) (l : list ablock) : outcome (list ablock * Z) :=
    match l with
    | [] => Ok ([], ctr)
    | bl :: r => do '(id, c1) <- def_ident (ab_label bl) ctr;
                 do '(is, c2) <- erase_insts c1 (ab_insts bl);
                 do '(t, c3) <- erase_inst c2 (ab_term bl);
                 do '(r', c4) <- erase_blocks c3 r;
                 Ok ({| ab_label := Some id; ab_insts := is; ab_term := t |} :: r', c4)
    end.
  Fixpoint erase_params (ctr : Z) (l : list (ty * option ident)) : outcome (list (ty * option ident) * Z) :=
    match l with
    | [] => Ok ([], ctr)
    | (t, p) :: r => do '(id, c1) <- def_ident p ctr; do '(r', c2) <- erase_params c1 r; Ok ((t, Some id) :: r', c2)
    end.
  Definition erase_func (a : afunc) : outcome afunc :=
    do '(ps, c) <- erase_params 0 (af_params a);
    do '(bs, _) <- erase_blocks c (af_blocks a);
    Ok {| af_ret := af_ret a; af_params := ps; af_blocks := bs |}.
  Fixpoint erase_globals (l : list aglobal) (ctr : Z) : outcome (list aglobal) :=
    match l with
    | [] => Ok []
    | g :: r =>
      let '(id, c) := gdef_ident (ag_id g) ctr in
      do body <- match ag_body g with
                 | AGVar None => Ok (AGVar None)
                 | AGVar (Some ci) => do ci' <- erase_const ci; Ok (AGVar (Some ci'))
                 | AGFunc f => do f' <- erase_func f; Ok (AGFunc f')
                 end;
      do r' <- erase_globals r c;
      Ok ({| ag_id := Some id; ag_ty := ag_ty g; ag_body := body |} :: r')
    end.
  Definition erase (a : amodule) : outcome amodule := erase_globals a 0.
End Erase.

(* ---- keys of a definition table are unique, so the table can be read both ways ---- *)
Section Keys.
  Context {K : Type}.
  Variable keqb : K -> K -> bool.
  Hypothesis keqb_spec : forall a b, keqb a b = true <-> a = b.

  Lemma ident_of_in (tbl : list (K * ident)) k i : NoDup (map fst tbl) -> In (k, i) tbl ->
    ident_of keqb k tbl = Some i.
  Proof.
    induction tbl as [|[k0 i0] r IH]; cbn [map fst In ident_of]; [tauto|]. intros Hnd Hin. inversion Hnd; subst.
    destruct (keqb k k0) eqn:E.
    - apply keqb_spec in E. subst. destruct Hin as [[= ->]|Hin]; [reflexivity|].
      exfalso. apply H1. apply (in_map fst) in Hin. exact Hin.
    - destruct Hin as [[= -> ->]|Hin].
      + assert (keqb k k = true) by (apply keqb_spec; reflexivity). congruence.
      + apply IH; assumption.
  Qed.

  Lemma nm_of_lookup (tbl : list (K * ident)) k i : NoDup (map fst tbl) -> lookup_ident i tbl = Some k ->
    nm keqb tbl k = i.
  Proof. intros Hnd H. unfold nm. rewrite (ident_of_in tbl k i Hnd (lookup_sound tbl i k H)). reflexivity. Qed.
End Keys.

Lemma NoDup_app_intro {A} (l1 l2 : list A) : NoDup l1 -> NoDup l2 ->
  (forall x, In x l1 -> In x l2 -> False) -> NoDup (l1 ++ l2).
Proof.
  induction l1 as [|a r IH]; intros H1 H2 Hd; [exact H2|]. cbn [app]. inversion H1; subst. constructor.
  - intros H. apply in_app_or in H as [H|H]; [contradiction|]. apply (Hd a); [left; reflexivity|exact H].
  - apply IH; [assumption|assumption|]. intros x Hx1 Hx2. apply (Hd x); [right; exact Hx1|exact Hx2].
Qed.

(* ---- the scaffold tables have pairwise distinct keys (they are positions) ---- *)
Definition blk (k : lkey) : option nat :=
  match k with KParam _ => None | KBlock b | KInst b _ | KTerm b => Some b end.

Lemma scaf_params_keys ps : forall i ctr l c, scaf_params ps i ctr = Ok (l, c) ->
  (forall k, In k (map fst l) -> exists j, k = KParam j /\ i <= j) /\ NoDup (map fst l).
Proof.
  induction ps as [|[t p] r IH]; intros i ctr l c; cbn [scaf_params].
  - intros [= <- <-]. split; [intros k []|constructor].
  - destruct (def_ident p ctr) as [[id c1]| |]; cbn [bind]; try discriminate.
    destruct (scaf_params r (S i) c1) as [[l' c2]| |] eqn:E; cbn [bind]; try discriminate.
    intros [= <- <-]. destruct (IH _ _ _ _ E) as [B N]. cbn [map fst]. split.
    + intros k [<-|H]; [exists i; split; [reflexivity|lia]|]. destruct (B k H) as (j & -> & Hj). exists j. split; [reflexivity|lia].
    + constructor; [|exact N]. intros H. destruct (B _ H) as (j & [= <-] & Hj). lia.
Qed.

Lemma scaf_insts_keys is : forall b i ctr l c, scaf_insts is b i ctr = Ok (l, c) ->
  (forall k, In k (map fst l) -> exists j, k = KInst b j /\ i <= j) /\ NoDup (map fst l).
Proof.
  induction is as [|x r IH]; intros b i ctr l c; cbn [scaf_insts].
  - intros [= <- <-]. split; [intros k []|constructor].
  - destruct (a_def x) as [d|].
    + destruct (def_ident d ctr) as [[id c1]| |]; cbn [bind]; try discriminate.
      destruct (scaf_insts r b (S i) c1) as [[l' c2]| |] eqn:E; cbn [bind]; try discriminate.
      intros [= <- <-]. destruct (IH _ _ _ _ _ E) as [B N]. cbn [map fst]. split.
      * intros k [<-|H]; [exists i; split; [reflexivity|lia]|]. destruct (B k H) as (j & -> & Hj). exists j. split; [reflexivity|lia].
      * constructor; [|exact N]. intros H. destruct (B _ H) as (j & [= <-] & Hj). lia.
    + intros H. destruct (IH _ _ _ _ _ H) as [B N]. split; [|exact N].
      intros k Hk. destruct (B k Hk) as (j & -> & Hj). exists j. split; [reflexivity|lia].
Qed.

Lemma scaf_blocks_keys bs : forall b ctr l c, scaf_blocks bs b ctr = Ok (l, c) ->
  (forall k, In k (map fst l) -> exists b', blk k = Some b' /\ b <= b') /\ NoDup (map fst l).
Proof.
  induction bs as [|bl r IH]; intros b ctr l c; cbn [scaf_blocks].
  - intros [= <- <-]. split; [intros k []|constructor].
  - destruct (def_ident (ab_label bl) ctr) as [[id c1]| |]; cbn [bind]; try discriminate.
    destruct (scaf_insts (ab_insts bl) b 0 c1) as [[li c2]| |] eqn:E1; cbn [bind]; try discriminate.
    destruct (scaf_term (ab_term bl) b c2) as [[lt c3]| |] eqn:E2; cbn [bind]; try discriminate.
    destruct (scaf_blocks r (S b) c3) as [[l' c4]| |] eqn:E3; cbn [bind]; try discriminate.
    intros [= <- <-]. destruct (scaf_insts_keys _ _ _ _ _ _ E1) as [Bi Ni]. destruct (IH _ _ _ _ E3) as [Bb Nb].
    assert (lt = [] \/ exists idt, lt = [(KTerm b, idt)]) as Hlt.
    { unfold scaf_term in E2. destruct (a_def (ab_term bl)) as [d|].
      - destruct (def_ident d c2) as [[idt c']| |]; cbn [bind] in E2; try discriminate. injection E2 as <- <-. right. eexists; reflexivity.
      - injection E2 as <- <-. left; reflexivity. }
    cbn [map fst]. rewrite !map_app. split.
    + intros k [<-|H]; [exists b; split; [reflexivity|lia]|].
      apply in_app_or in H as [H|H]; [destruct (Bi k H) as (j & -> & _); exists b; split; [reflexivity|lia]|].
      apply in_app_or in H as [H|H].
      * destruct Hlt as [->|[idt ->]]; [destruct H|]. destruct H as [<-|[]]. exists b; split; [reflexivity|lia].
      * destruct (Bb k H) as (b' & Hb & Hle). exists b'. split; [exact Hb|lia].
    + constructor.
      * intros H. apply in_app_or in H as [H|H]; [destruct (Bi _ H) as (j & [=] & _)|].
        apply in_app_or in H as [H|H].
        -- destruct Hlt as [->|[idt ->]]; [destruct H|]. destruct H as [[=]|[]].
        -- destruct (Bb _ H) as (b' & [= <-] & Hle). lia.
      * apply NoDup_app_intro; [exact Ni| |].
        -- apply NoDup_app_intro; [destruct Hlt as [->|[idt ->]]; repeat constructor; intros []|exact Nb|].
           intros k H1 H2. destruct Hlt as [->|[idt ->]]; [destruct H1|]. destruct H1 as [<-|[]].
           destruct (Bb _ H2) as (b' & [= <-] & Hle). lia.
        -- intros k H1 H2. destruct (Bi k H1) as (j & -> & _).
           apply in_app_or in H2 as [H2|H2].
           ++ destruct Hlt as [->|[idt ->]]; [destruct H2|]. destruct H2 as [[=]|[]].
           ++ destruct (Bb _ H2) as (b' & [= <-] & Hle). lia.
Qed.

(* ---- R2 ---- *)
Section R2.
  Variable choose_hex : Z -> bool.
  Variable gidx : list (gkey * ident).
  Hypothesis gkeys : NoDup (map fst gidx).

  Lemma erase_res_const c c' : res_const gidx c = Ok c' ->
    erase_const choose_hex c = Ok (embed_const choose_hex gidx c').
  Proof.
    destruct c as [w lit|t|t|t|t i]; cbn [res_const erase_const]; try (intros [= <-]; reflexivity).
    - destruct (parse_int w lit) as [v| |]; try discriminate. intros [= <-]. reflexivity.
    - destruct (lookup_ident i gidx) as [g|] eqn:E; [|discriminate]. intros [= <-]. cbn [embed_const].
      rewrite (nm_of_lookup Nat.eqb nat_eqb_spec gidx g i gkeys E). reflexivity.
  Qed.

  Section Func.
    Variable lidx : list (lkey * ident).
    Hypothesis lkeys : NoDup (map fst lidx).

    Lemma erase_res_op o o' : res_op gidx lidx o = Ok o' ->
      erase_op choose_hex o = Ok (embed_op choose_hex gidx lidx o').
    Proof.
      destruct o as [c|t i]; cbn [res_op erase_op].
      - destruct (res_const gidx c) as [c'| |] eqn:E; cbn [bind]; try discriminate. intros [= <-].
        rewrite (erase_res_const c c' E). reflexivity.
      - destruct (lookup_ident i lidx) as [k|] eqn:E; [|discriminate]. intros [= <-]. cbn [embed_op].
        rewrite (nm_of_lookup lkey_eqb lkey_eqb_spec lidx k i lkeys E). reflexivity.
    Qed.

    Lemma erase_res_ops l : forall l', res_ops gidx lidx l = Ok l' ->
      erase_ops choose_hex l = Ok (map (embed_op choose_hex gidx lidx) l').
    Proof.
      induction l as [|o r IH]; intros l'; cbn [res_ops erase_ops]; [intros [= <-]; reflexivity|].
      destruct (res_op gidx lidx o) as [o'| |] eqn:E; cbn [bind]; try discriminate.
      destruct (res_ops gidx lidx r) as [r'| |] eqn:E2; cbn [bind]; try discriminate.
      intros [= <-]. rewrite (erase_res_op o o' E). cbn [bind]. rewrite (IH r' eq_refl). reflexivity.
    Qed.

    Lemma res_lbls_names l : forall l', res_lbls lidx l = Ok l' ->
      map (fun b => nm lkey_eqb lidx (KBlock b)) l' = l.
    Proof.
      induction l as [|i r IH]; intros l'; cbn [res_lbls]; [intros [= <-]; reflexivity|].
      unfold res_lbl. destruct (lookup_ident i lidx) as [[ | b | | ]|] eqn:E; cbn [bind]; try discriminate.
      destruct (res_lbls lidx r) as [r'| |] eqn:E2; cbn [bind]; try discriminate.
      intros [= <-]. cbn [map]. rewrite (IH r' eq_refl).
      rewrite (nm_of_lookup lkey_eqb lkey_eqb_spec lidx (KBlock b) i lkeys E). reflexivity.
    Qed.

    Lemma erase_res_inst ctr x x' c : res_inst gidx lidx ctr x = Ok (x', c) ->
      erase_inst choose_hex ctr x = Ok (embed_inst choose_hex gidx lidx x', c).
    Proof.
      unfold res_inst, erase_inst.
      destruct (match a_def x with
                | Some d => do '(id, c0) <- def_ident d ctr; Ok (Some id, c0)
                | None => Ok (None, ctr) end) as [[d c1]| |] eqn:D; cbn [bind]; try discriminate.
      destruct (res_ops gidx lidx (a_ops x)) as [ops| |] eqn:O; cbn [bind]; try discriminate.
      destruct (res_lbls lidx (a_lbls x)) as [lbls| |] eqn:L; cbn [bind]; try discriminate.
      intros [= <- <-].
      assert (match a_def x with
              | Some d0 => do '(id, c0) <- def_ident d0 ctr; Ok (Some (Some id), c0)
              | None => Ok (None, ctr) end = Ok (option_map Some d, c1)) as ->.
      { destruct (a_def x) as [d0|].
        - destruct (def_ident d0 ctr) as [[id c0]| |]; cbn [bind] in *; try discriminate. injection D as <- <-. reflexivity.
        - injection D as <- <-. reflexivity. }
      cbn [bind]. rewrite (erase_res_ops _ _ O). cbn [bind].
      unfold embed_inst. cbn [i_def i_op i_enums i_tys i_ops i_lbls]. rewrite (res_lbls_names _ _ L). reflexivity.
    Qed.

    Lemma erase_res_insts l : forall ctr l' c, res_insts gidx lidx ctr l = Ok (l', c) ->
      erase_insts choose_hex ctr l = Ok (map (embed_inst choose_hex gidx lidx) l', c).
    Proof.
      induction l as [|x r IH]; intros ctr l' c; cbn [res_insts erase_insts]; [intros [= <- <-]; reflexivity|].
      destruct (res_inst gidx lidx ctr x) as [[x' c1]| |] eqn:E; cbn [bind]; try discriminate.
      destruct (res_insts gidx lidx c1 r) as [[r' c2]| |] eqn:E2; cbn [bind]; try discriminate.
      intros [= <- <-]. rewrite (erase_res_inst _ _ _ _ E). cbn [bind]. rewrite (IH _ _ _ E2). reflexivity.
    Qed.

    Lemma erase_res_blocks l : forall ctr l' c, res_blocks gidx lidx ctr l = Ok (l', c) ->
      erase_blocks choose_hex ctr l = Ok (map (embed_block choose_hex gidx lidx) l', c).
    Proof.
      induction l as [|bl r IH]; intros ctr l' c; cbn [res_blocks erase_blocks]; [intros [= <- <-]; reflexivity|].
      destruct (def_ident (ab_label bl) ctr) as [[id c1]| |]; cbn [bind]; try discriminate.
      destruct (res_insts gidx lidx c1 (ab_insts bl)) as [[is c2]| |] eqn:E1; cbn [bind]; try discriminate.
      destruct (res_inst gidx lidx c2 (ab_term bl)) as [[t c3]| |] eqn:E2; cbn [bind]; try discriminate.
      destruct (res_blocks gidx lidx c3 r) as [[r' c4]| |] eqn:E3; cbn [bind]; try discriminate.
      intros [= <- <-]. rewrite (erase_res_insts _ _ _ _ E1). cbn [bind].
      rewrite (erase_res_inst _ _ _ _ E2). cbn [bind]. rewrite (IH _ _ _ E3). reflexivity.
    Qed.
  End Func.

  Lemma erase_res_params l : forall ctr l' c, res_params ctr l = Ok (l', c) ->
    erase_params ctr l = Ok (map (fun p => (fst p, Some (snd p))) l', c).
  Proof.
    induction l as [|[t p] r IH]; intros ctr l' c; cbn [res_params erase_params]; [intros [= <- <-]; reflexivity|].
    destruct (def_ident p ctr) as [[id c1]| |]; cbn [bind]; try discriminate.
    destruct (res_params c1 r) as [[r' c2]| |] eqn:E; cbn [bind]; try discriminate.
    intros [= <- <-]. rewrite (IH _ _ _ E). reflexivity.
  Qed.

  Theorem erase_translate_func a f : translate_func gidx a = Ok f ->
    erase_func choose_hex a = Ok (embed_func choose_hex gidx f).
  Proof.
    intros H. destruct (translated_table gidx a f H) as (c & S1 & c' & S2 & ND).
    destruct (scaf_params_keys _ _ _ _ _ S1) as [Bp Np]. destruct (scaf_blocks_keys _ _ _ _ _ S2) as [Bb Nb].
    assert (NoDup (map fst (ldefs f))) as LK.
    { unfold ldefs. rewrite map_app. apply NoDup_app_intro; [exact Np|exact Nb|].
      intros k H1 H2. destruct (Bp k H1) as (j & -> & _). destruct (Bb _ H2) as (b' & [=] & _). }
    revert H. unfold translate_func. rewrite S1. cbn [bind]. rewrite S2. cbn [bind].
    fold (ldefs f). rewrite ND.
    destruct (res_params 0 (af_params a)) as [[ps c1]| |] eqn:R1; cbn [bind]; try discriminate.
    destruct (res_blocks gidx (ldefs f) c1 (af_blocks a)) as [[bs c2]| |] eqn:R2; cbn [bind]; try discriminate.
    intros [= <-]. unfold erase_func, embed_func. cbn [f_ret f_params f_blocks] in *.
    rewrite (erase_res_params _ _ _ _ R1). cbn [bind].
    rewrite (erase_res_blocks _ LK _ _ _ _ R2). cbn [bind]. reflexivity.
  Qed.
End R2.
Print Assumptions erase_translate_func.

(* ---- the module level ---- *)
Lemma scaf_globals_keys l : forall i ctr,
  (forall k, In k (map fst (scaf_globals l i ctr)) -> i <= k) /\ NoDup (map fst (scaf_globals l i ctr)).
Proof.
  induction l as [|g r IH]; intros i ctr; cbn [scaf_globals]; [split; [intros k []|constructor]|].
  destruct (gdef_ident (ag_id g) ctr) as [id c]. cbn [map fst]. destruct (IH (S i) c) as [B N]. split.
  - intros k [<-|H]; [lia|]. specialize (B k H). lia.
  - constructor; [|exact N]. intros H. specialize (B _ H). lia.
Qed.

Lemma res_globals_defs gidx l : forall ctr m i, res_globals gidx l ctr = Ok m -> gdefs m i = scaf_globals l i ctr.
Proof.
  induction l as [|g r IH]; intros ctr m i; cbn [res_globals scaf_globals]; [intros [= <-]; reflexivity|].
  destruct (gdef_ident (ag_id g) ctr) as [id c].
  destruct (match ag_body g with
            | AGVar None => Ok (GVar None)
            | AGVar (Some ci) => do ci' <- res_const gidx ci; Ok (GVar (Some ci'))
            | AGFunc f => do f' <- translate_func gidx f; Ok (GFunc f')
            end) as [body| |]; cbn [bind]; try discriminate.
  destruct (res_globals gidx r c) as [r'| |] eqn:E; cbn [bind]; try discriminate.
  intros [= <-]. cbn [gdefs g_id]. f_equal. apply IH. exact E.
Qed.

Lemma erase_res_globals choose_hex gidx : NoDup (map fst gidx) ->
  forall l ctr m, res_globals gidx l ctr = Ok m ->
  erase_globals choose_hex l ctr = Ok (map (embed_global choose_hex gidx) m).
Proof.
  intros gkeys. induction l as [|g r IH]; intros ctr m; cbn [res_globals erase_globals]; [intros [= <-]; reflexivity|].
  destruct (gdef_ident (ag_id g) ctr) as [id c].
  destruct (ag_body g) as [[ci|]|f].
  - destruct (res_const gidx ci) as [ci'| |] eqn:E; cbn [bind]; try discriminate.
    destruct (res_globals gidx r c) as [r'| |] eqn:E2; cbn [bind]; try discriminate.
    intros [= <-]. rewrite (erase_res_const choose_hex gidx gkeys ci ci' E). cbn [bind].
    rewrite (IH _ _ E2). reflexivity.
  - cbn [bind]. destruct (res_globals gidx r c) as [r'| |] eqn:E2; cbn [bind]; try discriminate.
    intros [= <-]. rewrite (IH _ _ E2). reflexivity.
  - destruct (translate_func gidx f) as [f'| |] eqn:E; cbn [bind]; try discriminate.
    destruct (res_globals gidx r c) as [r'| |] eqn:E2; cbn [bind]; try discriminate.
    intros [= <-]. rewrite (erase_translate_func choose_hex gidx gkeys f f' E). cbn [bind].
    rewrite (IH _ _ E2). reflexivity.
Qed.

(* R2: the printed module is the input in canonical spelling *)
Theorem erase_translate choose_hex a m : translate a = Ok m -> erase choose_hex a = Ok (embed choose_hex m).
Proof.
  unfold translate, erase, embed. destruct (nodup_idents (scaf_globals a 0 0)) eqn:ND; [|discriminate].
  intros H. rewrite (res_globals_defs _ _ _ _ 0 H).
  apply erase_res_globals; [apply scaf_globals_keys|exact H].
Qed.

(* two inputs that translate to the same module differ in spelling only *)
Corollary same_translation_same_spelling choose_hex a a' m :
  translate a = Ok m -> translate a' = Ok m -> erase choose_hex a = erase choose_hex a'.
Proof. intros H H'. rewrite (erase_translate choose_hex a m H), (erase_translate choose_hex a' m H'). reflexivity. Qed.
Print Assumptions erase_translate.
