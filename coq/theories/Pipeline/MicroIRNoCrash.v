(* C01 on uIR: translation never crashes.  Every AST of the fragment -- well-formed or not -- is either
   translated or rejected with an error; the outcome Panic is not reachable. *)
From Coq Require Import List Bool Arith NArith ZArith Lia.
From LLIR Require Import Lib.Bytes Lib.Radix Model.Types Model.IntLit Pipeline.MicroIR.
Import ListNotations.

Definition np {A} (x : outcome A) : Prop := x <> Panic.

Lemma np_bind {A B} (x : outcome A) (f : A -> outcome B) : np x -> (forall a, np (f a)) -> np (bind x f).
Proof. unfold np, bind. destruct x; [intros _ H; apply H|discriminate|congruence]. Qed.
Lemma np_ok {A} (a : A) : np (Ok a). Proof. discriminate. Qed.
Lemma np_err {A} : np (@Err A). Proof. discriminate. Qed.

Lemma parse_int_np w s : parse_int w s <> IntLit.Panic.
Proof.
  unfold parse_int.
  destruct (bytes_eqb s s_true); [destruct (N.eqb w 1); discriminate|].
  destruct (bytes_eqb s s_false); [destruct (N.eqb w 1); discriminate|].
  destruct (strip_prefix p_u0x s); [destruct (parse_signed_hex _); discriminate|].
  destruct (strip_prefix p_s0x s); [destruct (parse_signed_hex _); [destruct (Z.testbit _ _)|]; discriminate|].
  destruct (parse_signed_dec s); discriminate.
Qed.

Lemma def_ident_np d c : np (def_ident d c).
Proof. unfold def_ident. destruct d as [[s|n]|]; [discriminate|destruct (Z.eqb n c); discriminate|discriminate]. Qed.

Section G.
  Variable gidx : list (gkey * ident).
  Lemma res_const_np c : np (res_const gidx c).
  Proof.
    destruct c; cbn [res_const]; try discriminate.
    - pose proof (parse_int_np w lit). destruct (parse_int w lit); [discriminate|discriminate|congruence].
    - destruct (lookup_ident i gidx); discriminate.
  Qed.
  Section L.
    Variable lidx : list (lkey * ident).
    Lemma res_op_np o : np (res_op gidx lidx o).
    Proof.
      destruct o; cbn [res_op].
      - apply np_bind; [apply res_const_np|intros; apply np_ok].
      - destruct (lookup_ident i lidx); discriminate.
    Qed.
    Lemma res_ops_np l : np (res_ops gidx lidx l).
    Proof. induction l as [|o r IH]; cbn [res_ops]; [apply np_ok|]. apply np_bind; [apply res_op_np|intros]. apply np_bind; [exact IH|intros; apply np_ok]. Qed.
    Lemma res_lbl_np i : np (res_lbl lidx i).
    Proof. unfold res_lbl. destruct (lookup_ident i lidx) as [[]|]; discriminate. Qed.
    Lemma res_lbls_np l : np (res_lbls lidx l).
    Proof. induction l as [|o r IH]; cbn [res_lbls]; [apply np_ok|]. apply np_bind; [apply res_lbl_np|intros]. apply np_bind; [exact IH|intros; apply np_ok]. Qed.
    Lemma res_inst_np c x : np (res_inst gidx lidx c x).
    Proof.
      unfold res_inst. apply np_bind.
      - destruct (a_def x); [|apply np_ok]. apply np_bind; [apply def_ident_np|intros [? ?]; apply np_ok].
      - intros [d c1]. apply np_bind; [apply res_ops_np|intros]. apply np_bind; [apply res_lbls_np|intros; apply np_ok].
    Qed.
    Lemma res_insts_np l : forall c, np (res_insts gidx lidx c l).
    Proof.
      induction l as [|x r IH]; intros c; cbn [res_insts]; [apply np_ok|].
      apply np_bind; [apply res_inst_np|intros [? ?]]. apply np_bind; [apply IH|intros [? ?]; apply np_ok].
    Qed.
    Lemma res_blocks_np l : forall c, np (res_blocks gidx lidx c l).
    Proof.
      induction l as [|b r IH]; intros c; cbn [res_blocks]; [apply np_ok|].
      apply np_bind; [apply def_ident_np|intros [? ?]]. apply np_bind; [apply res_insts_np|intros [? ?]].
      apply np_bind; [apply res_inst_np|intros [? ?]]. apply np_bind; [apply IH|intros [? ?]; apply np_ok].
    Qed.
  End L.
  Lemma res_params_np l : forall c, np (res_params c l).
  Proof.
    induction l as [|[t p] r IH]; intros c; cbn [res_params]; [apply np_ok|].
    apply np_bind; [apply def_ident_np|intros [? ?]]. apply np_bind; [apply IH|intros [? ?]; apply np_ok].
  Qed.
  Lemma scaf_params_np l : forall i c, np (scaf_params l i c).
  Proof.
    induction l as [|[t p] r IH]; intros i c; cbn [scaf_params]; [apply np_ok|].
    apply np_bind; [apply def_ident_np|intros [? ?]]. apply np_bind; [apply IH|intros [? ?]; apply np_ok].
  Qed.
  Lemma scaf_insts_np l : forall b i c, np (scaf_insts l b i c).
  Proof.
    induction l as [|x r IH]; intros b i c; cbn [scaf_insts]; [apply np_ok|].
    destruct (a_def x); [|apply IH]. apply np_bind; [apply def_ident_np|intros [? ?]]. apply np_bind; [apply IH|intros [? ?]; apply np_ok].
  Qed.
  Lemma scaf_term_np t b c : np (scaf_term t b c).
  Proof. unfold scaf_term. destruct (a_def t); [|apply np_ok]. apply np_bind; [apply def_ident_np|intros [? ?]; apply np_ok]. Qed.
  Lemma scaf_blocks_np l : forall b c, np (scaf_blocks l b c).
  Proof.
    induction l as [|bl r IH]; intros b c; cbn [scaf_blocks]; [apply np_ok|].
    apply np_bind; [apply def_ident_np|intros [? ?]]. apply np_bind; [apply scaf_insts_np|intros [? ?]].
    apply np_bind; [apply scaf_term_np|intros [? ?]]. apply np_bind; [apply IH|intros [? ?]; apply np_ok].
  Qed.
  Lemma translate_func_np a : np (translate_func gidx a).
  Proof.
    unfold translate_func. apply np_bind; [apply scaf_params_np|intros [lp c]].
    apply np_bind; [apply scaf_blocks_np|intros [lb c']].
    destruct (nodup_idents (lp ++ lb)); [|apply np_err].
    apply np_bind; [apply res_params_np|intros [ps c'']]. apply np_bind; [apply res_blocks_np|intros [? ?]; apply np_ok].
  Qed.
  Lemma res_globals_np l : forall c, np (res_globals gidx l c).
  Proof.
    induction l as [|g r IH]; intros c; cbn [res_globals]; [apply np_ok|].
    destruct (gdef_ident (ag_id g) c) as [id c1]. apply np_bind.
    - destruct (ag_body g) as [[ci|]|f]; [|apply np_ok|].
      + apply np_bind; [apply res_const_np|intros; apply np_ok].
      + apply np_bind; [apply translate_func_np|intros; apply np_ok].
    - intros body. apply np_bind; [apply IH|intros; apply np_ok].
  Qed.
End G.

Theorem translate_never_panics : forall a, translate a <> Panic.
Proof. intros a. unfold translate. destruct (nodup_idents (scaf_globals a 0 0)); [apply res_globals_np|discriminate]. Qed.
Print Assumptions translate_never_panics.
