(* C04 / C05 on uIR, for arbitrary ASTs (not only printed ones):
   - the definition table of a translated function is exactly the scaffold table;
   - every local use in the result is the key of the definition that carries the
     identifier written at the use site (no placeholder, no foreign scope);
   - a use of an undefined identifier, or a duplicate definition, is an error. *)
From Coq Require Import List Bool Arith NArith ZArith Lia.
From LLIR Require Import Lib.Bytes Model.Types Model.IntLit Pipeline.MicroIR Pipeline.MicroIRProofs.
Import ListNotations.

Arguments def_ident : simpl never.

(* lookup returns an entry of the table *)
Lemma lookup_sound {K} (tbl : list (K * ident)) i k : lookup_ident i tbl = Some k -> In (k, i) tbl.
Proof.
  induction tbl as [|[k0 i0] r IH]; cbn; [discriminate|].
  destruct (ident_eqb i i0) eqn:E.
  - intros [= ->]. apply ident_eqb_spec in E. subst. left. reflexivity.
  - intros H. right. apply IH. exact H.
Qed.
Lemma lookup_none {K} (tbl : list (K * ident)) i : lookup_ident i tbl = None -> forall k, ~ In (k, i) tbl.
Proof.
  induction tbl as [|[k0 i0] r IH]; cbn; [tauto|].
  destruct (ident_eqb i i0) eqn:E; [discriminate|]. intros H k [[= -> ->]|Hin].
  - rewrite ident_eqb_refl in E. discriminate.
  - eapply IH; eassumption.
Qed.

(* a successful fill pass reproduces, position by position, the identifiers the scaffold pass chose *)
Section Fill.
  Variable gidx : list (gkey * ident).
  Variable lidx : list (lkey * ident).

  Lemma res_inst_def ctr x x' c : res_inst gidx lidx ctr x = Ok (x', c) ->
    match a_def x with
    | Some d => exists id, def_ident d ctr = Ok (id, c) /\ i_def x' = Some id
    | None => c = ctr /\ i_def x' = None
    end.
  Proof.
    unfold res_inst. destruct (a_def x) as [d|].
    - destruct (def_ident d ctr) as [[id c1]| |]; cbn [bind]; try discriminate.
      destruct (res_ops gidx lidx (a_ops x)); cbn [bind]; try discriminate.
      destruct (res_lbls lidx (a_lbls x)); cbn [bind]; try discriminate.
      intros [= <- <-]. exists id. split; reflexivity.
    - cbn [bind]. destruct (res_ops gidx lidx (a_ops x)); cbn [bind]; try discriminate.
      destruct (res_lbls lidx (a_lbls x)); cbn [bind]; try discriminate.
      intros [= <- <-]. split; reflexivity.
  Qed.

  Lemma res_insts_defs is : forall ctr is' c b i, res_insts gidx lidx ctr is = Ok (is', c) ->
    scaf_insts is b i ctr = Ok (defs_insts is' b i, c).
  Proof.
    induction is as [|x r IH]; intros ctr is' c b i; cbn [res_insts scaf_insts].
    - intros [= <- <-]. reflexivity.
    - destruct (res_inst gidx lidx ctr x) as [[x' c1]| |] eqn:E; cbn [bind]; try discriminate.
      destruct (res_insts gidx lidx c1 r) as [[r' c2]| |] eqn:E2; cbn [bind]; try discriminate.
      intros [= <- <-]. apply res_inst_def in E. cbn [defs_insts].
      destruct (a_def x) as [d|].
      + destruct E as (id & Ed & Ei). rewrite Ed, Ei. cbn [bind]. rewrite (IH _ _ _ b (S i) E2). reflexivity.
      + destruct E as [-> Ei]. rewrite Ei. apply IH. exact E2.
  Qed.

  Lemma res_blocks_defs bs : forall ctr bs' c b, res_blocks gidx lidx ctr bs = Ok (bs', c) ->
    scaf_blocks bs b ctr = Ok (defs_blocks bs' b, c).
  Proof.
    induction bs as [|bl r IH]; intros ctr bs' c b; cbn [res_blocks scaf_blocks].
    - intros [= <- <-]. reflexivity.
    - destruct (def_ident (ab_label bl) ctr) as [[id c1]| |] eqn:E0; cbn [bind]; try discriminate.
      destruct (res_insts gidx lidx c1 (ab_insts bl)) as [[is c2]| |] eqn:E1; cbn [bind]; try discriminate.
      destruct (res_inst gidx lidx c2 (ab_term bl)) as [[t c3]| |] eqn:E2; cbn [bind]; try discriminate.
      destruct (res_blocks gidx lidx c3 r) as [[r' c4]| |] eqn:E3; cbn [bind]; try discriminate.
      intros [= <- <-]. cbn [defs_blocks b_id b_insts b_term].
      rewrite (res_insts_defs _ _ _ _ b 0 E1). cbn [bind].
      apply res_inst_def in E2. unfold scaf_term, defs_term.
      destruct (a_def (ab_term bl)) as [d|].
      + destruct E2 as (idt & Ed & Ei). rewrite Ed, Ei. cbn [bind]. rewrite (IH _ _ _ (S b) E3). reflexivity.
      + destruct E2 as [-> Ei]. rewrite Ei. cbn [bind]. rewrite (IH _ _ _ (S b) E3). reflexivity.
  Qed.
End Fill.

Lemma res_params_defs ps : forall ctr ps' c i, res_params ctr ps = Ok (ps', c) ->
  scaf_params ps i ctr = Ok (defs_params ps' i, c).
Proof.
  induction ps as [|[t p] r IH]; intros ctr ps' c i; cbn [res_params scaf_params].
  - intros [= <- <-]. reflexivity.
  - destruct (def_ident p ctr) as [[id c1]| |]; cbn [bind]; try discriminate.
    destruct (res_params c1 r) as [[r' c2]| |] eqn:E; cbn [bind]; try discriminate.
    intros [= <- <-]. cbn [defs_params]. rewrite (IH _ _ _ (S i) E). reflexivity.
Qed.

(* C04: the table the uses were resolved in is the definition table of the function that comes out *)
Theorem translated_table gidx a f : translate_func gidx a = Ok f ->
  exists c, scaf_params (af_params a) 0 0 = Ok (defs_params (f_params f) 0, c) /\
            exists c', scaf_blocks (af_blocks a) 0 c = Ok (defs_blocks (f_blocks f) 0, c') /\
            nodup_idents (ldefs f) = true.
Proof.
  unfold translate_func.
  destruct (scaf_params (af_params a) 0 0) as [[lp c]| |] eqn:S1; cbn [bind]; try discriminate.
  destruct (scaf_blocks (af_blocks a) 0 c) as [[lb c']| |] eqn:S2; cbn [bind]; try discriminate.
  destruct (nodup_idents (lp ++ lb)) eqn:ND; [|discriminate].
  destruct (res_params 0 (af_params a)) as [[ps c1]| |] eqn:R1; cbn [bind]; try discriminate.
  destruct (res_blocks gidx (lp ++ lb) c1 (af_blocks a)) as [[bs c2]| |] eqn:R2; cbn [bind]; try discriminate.
  intros [= <-]. cbn [f_params f_blocks].
  pose proof (res_params_defs _ _ _ _ 0 R1) as P1. rewrite S1 in P1. injection P1 as Hlp Hc.
  subst c1. pose proof (res_blocks_defs gidx _ _ _ _ _ 0 R2) as P2. rewrite S2 in P2. injection P2 as Hlb Hc'.
  exists c. split; [rewrite Hlp; reflexivity|]. exists c'. split; [rewrite S2, Hlb; reflexivity|].
  unfold ldefs. cbn [f_params f_blocks]. rewrite <- Hlp, <- Hlb. exact ND.
Qed.

(* every operand that comes out as a local reference points at an entry of the table it was resolved in,
   carrying the identifier that was written; an unknown identifier is an error, never a module *)
Theorem use_is_def gidx lidx t i o : res_op gidx lidx (ALocal t i) = Ok o ->
  exists k, o = OLocal t k /\ In (k, i) lidx.
Proof.
  cbn [res_op]. destruct (lookup_ident i lidx) as [k|] eqn:E; [|discriminate].
  intros [= <-]. exists k. split; [reflexivity|]. apply lookup_sound. exact E.
Qed.
Theorem undefined_local_is_error gidx lidx t i : (forall k, ~ In (k, i) lidx) ->
  res_op gidx lidx (ALocal t i) = Err.
Proof.
  intros H. cbn [res_op]. destruct (lookup_ident i lidx) as [k|] eqn:E; [|reflexivity].
  exfalso. apply (H k). apply lookup_sound. exact E.
Qed.
Theorem undefined_global_is_error gidx t i : (forall k, ~ In (k, i) gidx) ->
  res_const gidx (ACGlobal t i) = Err.
Proof.
  intros H. cbn [res_const]. destruct (lookup_ident i gidx) as [k|] eqn:E; [|reflexivity].
  exfalso. apply (H k). apply lookup_sound. exact E.
Qed.
Theorem duplicate_local_is_error gidx a : 
  (forall lp c lb c', scaf_params (af_params a) 0 0 = Ok (lp, c) -> scaf_blocks (af_blocks a) 0 c = Ok (lb, c') ->
     nodup_idents (lp ++ lb) = false) ->
  forall f, translate_func gidx a <> Ok f.
Proof.
  intros H f. unfold translate_func.
  destruct (scaf_params (af_params a) 0 0) as [[lp c]| |] eqn:S1; cbn [bind]; try discriminate.
  destruct (scaf_blocks (af_blocks a) 0 c) as [[lb c']| |] eqn:S2; cbn [bind]; try discriminate.
  rewrite (H lp c lb c' eq_refl S2). discriminate.
Qed.
Print Assumptions translated_table.
