(* uIR: the AST / IR boundary of the library for a whole module.
     IR  : what package ir holds (references are keys = positions)
     AST : what the external parser hands to package asm (references are identifiers,
           integer literals are their text)
   embed (the printers, factored through the AST) and translate (package asm).
   Instructions and terminators have one uniform, arity-agnostic shape, so the
   round-trip theorem covers every kind at once; the per-kind text formats are
   a separate layer (Formats.v, compared with the regenerated Gen/Formats.v). *)
From Coq Require Import List Bool Arith NArith ZArith.
From LLIR Require Import Lib.Bytes Model.Types Model.IntLit.
Import ListNotations.

Inductive ident := Name (s : bytes) | Id (n : Z).
Definition ident_eqb (a b : ident) : bool :=
  match a, b with Name x, Name y => bytes_eqb x y | Id x, Id y => Z.eqb x y | _, _ => false end.

(* keys *)
Inductive lkey := KParam (i : nat) | KBlock (b : nat) | KInst (b i : nat) | KTerm (b : nat).
Definition gkey := nat.                           (* position in the module's global list *)

(* ---------------- IR ---------------- *)
Inductive const :=
| CInt (w : N) (v : Z) | CNull (t : ty) | CZero (t : ty) | CUndef (t : ty) | CGlobal (t : ty) (g : gkey).
Inductive operand := OConst (c : const) | OLocal (t : ty) (k : lkey).

Record inst := {
  i_def : option ident;        (* Some: value-producing, with its stored identifier; None: store, fence, void call *)
  i_op : nat;                  (* opcode *)
  i_enums : list nat;          (* predicates, flags, orderings, ... *)
  i_tys : list ty;             (* explicit types: element type, target type, ... *)
  i_ops : list operand;
  i_lbls : list nat;           (* block operands: branch targets, phi predecessors *)
}.
Record block := { b_id : ident; b_insts : list inst; b_term : inst }.
Record func := { f_ret : ty; f_params : list (ty * ident); f_blocks : list block }.
Inductive gbody := GVar (init : option const) | GFunc (f : func).
Record global := { g_id : ident; g_ty : ty; g_body : gbody }.
Definition module := list global.

(* ---------------- AST ---------------- *)
Inductive aconst :=
| ACInt (w : N) (lit : bytes) | ACNull (t : ty) | ACZero (t : ty) | ACUndef (t : ty) | ACGlobal (t : ty) (i : ident).
Inductive aoperand := AConst (c : aconst) | ALocal (t : ty) (i : ident).
Record ainst := {
  a_def : option (option ident);     (* None: non-value; Some None: value, name omitted; Some (Some i): as written *)
  a_op : nat; a_enums : list nat; a_tys : list ty; a_ops : list aoperand; a_lbls : list ident;
}.
Record ablock := { ab_label : option ident; ab_insts : list ainst; ab_term : ainst }.
Record afunc := { af_ret : ty; af_params : list (ty * option ident); af_blocks : list ablock }.
Inductive agbody := AGVar (init : option aconst) | AGFunc (f : afunc).
Record aglobal := { ag_id : option ident; ag_ty : ty; ag_body : agbody }.
Definition amodule := list aglobal.

Inductive outcome (A : Type) := Ok (a : A) | Err | Panic.
Arguments Ok {A}. Arguments Err {A}. Arguments Panic {A}.
Definition bind {A B} (x : outcome A) (f : A -> outcome B) : outcome B :=
  match x with Ok a => f a | Err => Err | Panic => Panic end.
Notation "'do' x <- a ; b" := (bind a (fun x => b)) (at level 60, x name, right associativity).
Notation "'do' ' p <- a ; b" := (bind a (fun x => match x with p => b end)) (at level 60, p pattern, right associativity).

(* ---------------- tables of definitions ---------------- *)
Section Tables.
  Context {K : Type}.
  Fixpoint lookup_ident (i : ident) (l : list (K * ident)) : option K :=
    match l with [] => None | (k, i') :: r => if ident_eqb i i' then Some k else lookup_ident i r end.
  Fixpoint nodup_idents (l : list (K * ident)) : bool :=
    match l with
    | [] => true
    | (_, i) :: r => match lookup_ident i r with Some _ => false | None => nodup_idents r end
    end.
  Variable keqb : K -> K -> bool.
  Fixpoint ident_of (k : K) (l : list (K * ident)) : option ident :=
    match l with [] => None | (k', i) :: r => if keqb k k' then Some i else ident_of k r end.
  Definition nm (tbl : list (K * ident)) (k : K) : ident :=
    match ident_of k tbl with Some i => i | None => Id 0 end.
End Tables.

Definition lkey_eqb (a b : lkey) : bool :=
  match a, b with
  | KParam x, KParam y => x =? y | KBlock x, KBlock y => x =? y
  | KInst x i, KInst y j => (x =? y) && (i =? j) | KTerm x, KTerm y => x =? y | _, _ => false end.

(* local definitions of a function in LLVM's order: parameters, then per block: label, results, terminator result *)
Fixpoint defs_params (ps : list (ty * ident)) (i : nat) : list (lkey * ident) :=
  match ps with [] => [] | (_, p) :: r => (KParam i, p) :: defs_params r (S i) end.
Fixpoint defs_insts (is : list inst) (b i : nat) : list (lkey * ident) :=
  match is with
  | [] => []
  | x :: r => match i_def x with
              | Some id => (KInst b i, id) :: defs_insts r b (S i)
              | None => defs_insts r b (S i)
              end
  end.
Definition defs_term (t : inst) (b : nat) : list (lkey * ident) :=
  match i_def t with Some id => [(KTerm b, id)] | None => [] end.
Fixpoint defs_blocks (bs : list block) (b : nat) : list (lkey * ident) :=
  match bs with
  | [] => []
  | bl :: r => (KBlock b, b_id bl) :: defs_insts (b_insts bl) b 0 ++ defs_term (b_term bl) b ++ defs_blocks r (S b)
  end.
Definition ldefs (f : func) := defs_params (f_params f) 0 ++ defs_blocks (f_blocks f) 0.

Fixpoint gdefs (m : list global) (i : nat) : list (gkey * ident) :=
  match m with [] => [] | g :: r => (i, g_id g) :: gdefs r (S i) end.

(* ---------------- embed: IR -> AST ---------------- *)
Section Embed.
  Variable choose_hex : Z -> bool.
  Variable gtbl : list (gkey * ident).

  Definition lit_of (w : N) (v : Z) : bytes :=
    match IntLit.ident choose_hex w v with IntLit.Ok l => l | _ => [] end.
  Definition embed_const (c : const) : aconst :=
    match c with
    | CInt w v => ACInt w (lit_of w v)
    | CNull t => ACNull t | CZero t => ACZero t | CUndef t => ACUndef t
    | CGlobal t g => ACGlobal t (nm Nat.eqb gtbl g)
    end.
  Section Func.
    Variable ltbl : list (lkey * ident).
    Definition embed_op (o : operand) : aoperand :=
      match o with OConst c => AConst (embed_const c) | OLocal t k => ALocal t (nm lkey_eqb ltbl k) end.
    Definition embed_inst (x : inst) : ainst :=
      {| a_def := option_map Some (i_def x); a_op := i_op x; a_enums := i_enums x; a_tys := i_tys x;
         a_ops := map embed_op (i_ops x); a_lbls := map (fun b => nm lkey_eqb ltbl (KBlock b)) (i_lbls x) |}.
    Definition embed_block (bl : block) : ablock :=
      {| ab_label := Some (b_id bl); ab_insts := map embed_inst (b_insts bl); ab_term := embed_inst (b_term bl) |}.
  End Func.
  Definition embed_func (f : func) : afunc :=
    let ltbl := ldefs f in
    {| af_ret := f_ret f; af_params := map (fun p => (fst p, Some (snd p))) (f_params f);
       af_blocks := map (embed_block ltbl) (f_blocks f) |}.
  Definition embed_global (g : global) : aglobal :=
    {| ag_id := Some (g_id g); ag_ty := g_ty g;
       ag_body := match g_body g with
                  | GVar init => AGVar (option_map embed_const init)
                  | GFunc f => AGFunc (embed_func f)
                  end |}.
End Embed.
Definition embed (choose_hex : Z -> bool) (m : module) : amodule :=
  map (embed_global choose_hex (gdefs m 0)) m.

(* ---------------- translate: AST -> IR ---------------- *)
(* the identifier a definition gets: a name is kept; a written number must equal the counter; absent -> counter *)
Definition def_ident (i : option ident) (ctr : Z) : outcome (ident * Z) :=
  match i with
  | Some (Name s) => Ok (Name s, ctr)
  | Some (Id n) => if Z.eqb n ctr then Ok (Id ctr, (ctr + 1)%Z) else Err
  | None => Ok (Id ctr, (ctr + 1)%Z)
  end.

(* locals: scaffold (thread the counter, validate written numbers) *)
Fixpoint scaf_params (ps : list (ty * option ident)) (i : nat) (ctr : Z) : outcome (list (lkey * ident) * Z) :=
  match ps with
  | [] => Ok ([], ctr)
  | (_, p) :: r => do '(id, c1) <- def_ident p ctr; do '(l, c2) <- scaf_params r (S i) c1; Ok ((KParam i, id) :: l, c2)
  end.
Fixpoint scaf_insts (is : list ainst) (b i : nat) (ctr : Z) : outcome (list (lkey * ident) * Z) :=
  match is with
  | [] => Ok ([], ctr)
  | x :: r => match a_def x with
              | Some d => do '(id, c1) <- def_ident d ctr; do '(l, c2) <- scaf_insts r b (S i) c1; Ok ((KInst b i, id) :: l, c2)
              | None => scaf_insts r b (S i) ctr
              end
  end.
Definition scaf_term (t : ainst) (b : nat) (ctr : Z) : outcome (list (lkey * ident) * Z) :=
  match a_def t with
  | Some d => do '(id, c1) <- def_ident d ctr; Ok ([(KTerm b, id)], c1)
  | None => Ok ([], ctr)
  end.
Fixpoint scaf_blocks (bs : list ablock) (b : nat) (ctr : Z) : outcome (list (lkey * ident) * Z) :=
  match bs with
  | [] => Ok ([], ctr)
  | bl :: r => do '(id, c1) <- def_ident (ab_label bl) ctr;
               do '(li, c2) <- scaf_insts (ab_insts bl) b 0 c1;
               do '(lt, c3) <- scaf_term (ab_term bl) b c2;
               do '(l, c4) <- scaf_blocks r (S b) c3;
               Ok ((KBlock b, id) :: li ++ lt ++ l, c4)
  end.

Section Resolve.
  Variable gidx : list (gkey * ident).
  Definition res_const (c : aconst) : outcome const :=
    match c with
    | ACInt w lit => match parse_int w lit with IntLit.Ok v => Ok (CInt w v) | IntLit.Err => Err | IntLit.Panic => Panic end
    | ACNull t => Ok (CNull t) | ACZero t => Ok (CZero t) | ACUndef t => Ok (CUndef t)
    | ACGlobal t i => match lookup_ident i gidx with Some g => Ok (CGlobal t g) | None => Err end
    end.
  Section Func.
    Variable lidx : list (lkey * ident).
    Definition res_op (o : aoperand) : outcome operand :=
      match o with
      | AConst c => do c' <- res_const c; Ok (OConst c')
      | ALocal t i => match lookup_ident i lidx with Some k => Ok (OLocal t k) | None => Err end
      end.
    Fixpoint res_ops (l : list aoperand) : outcome (list operand) :=
      match l with [] => Ok [] | o :: r => do o' <- res_op o; do r' <- res_ops r; Ok (o' :: r') end.
    Definition res_lbl (i : ident) : outcome nat :=
      match lookup_ident i lidx with Some (KBlock b) => Ok b | _ => Err end.
    Fixpoint res_lbls (l : list ident) : outcome (list nat) :=
      match l with [] => Ok [] | i :: r => do b <- res_lbl i; do r' <- res_lbls r; Ok (b :: r') end.
    Definition res_inst (ctr : Z) (x : ainst) : outcome (inst * Z) :=
      do '(d, c1) <- match a_def x with
                     | Some d => do '(id, c) <- def_ident d ctr; Ok (Some id, c)
                     | None => Ok (None, ctr)
                     end;
      do ops <- res_ops (a_ops x); do lbls <- res_lbls (a_lbls x);
      Ok ({| i_def := d; i_op := a_op x; i_enums := a_enums x; i_tys := a_tys x; i_ops := ops; i_lbls := lbls |}, c1).
    Fixpoint res_insts (ctr : Z) (l : list ainst) : outcome (list inst * Z) :=
      match l with
      | [] => Ok ([], ctr)
      | x :: r => do '(x', c1) <- res_inst ctr x; do '(r', c2) <- res_insts c1 r; Ok (x' :: r', c2)
      end.
    Fixpoint res_blocks (ctr : Z) (l : list ablock) : outcome (list block * Z) :=
      match l with
      | [] => Ok ([], ctr)
      | bl :: r => do '(id, c1) <- def_ident (ab_label bl) ctr;
                   do '(is, c2) <- res_insts c1 (ab_insts bl);
                   do '(t, c3) <- res_inst c2 (ab_term bl);
                   do '(r', c4) <- res_blocks c3 r;
                   Ok ({| b_id := id; b_insts := is; b_term := t |} :: r', c4)
      end.
  End Func.
  Fixpoint res_params (ctr : Z) (l : list (ty * option ident)) : outcome (list (ty * ident) * Z) :=
    match l with
    | [] => Ok ([], ctr)
    | (t, p) :: r => do '(id, c1) <- def_ident p ctr; do '(r', c2) <- res_params c1 r; Ok ((t, id) :: r', c2)
    end.
  Definition translate_func (a : afunc) : outcome func :=
    do '(lp, c) <- scaf_params (af_params a) 0 0;
    do '(lb, _) <- scaf_blocks (af_blocks a) 0 c;
    let lidx := lp ++ lb in
    if nodup_idents lidx then
      do '(ps, c') <- res_params 0 (af_params a);
      do '(bs, _) <- res_blocks lidx c' (af_blocks a);
      Ok {| f_ret := af_ret a; f_params := ps; f_blocks := bs |}
    else Err.
End Resolve.

(* globals: written names are kept; unnamed ones are numbered in textual order (a written number is overwritten) *)
Definition gdef_ident (i : option ident) (ctr : Z) : ident * Z :=
  match i with Some (Name s) => (Name s, ctr) | _ => (Id ctr, (ctr + 1)%Z) end.
Fixpoint scaf_globals (l : list aglobal) (i : nat) (ctr : Z) : list (gkey * ident) :=
  match l with
  | [] => []
  | g :: r => let '(id, c) := gdef_ident (ag_id g) ctr in (i, id) :: scaf_globals r (S i) c
  end.
Fixpoint res_globals (gidx : list (gkey * ident)) (l : list aglobal) (ctr : Z) : outcome (list global) :=
  match l with
  | [] => Ok []
  | g :: r =>
    let '(id, c) := gdef_ident (ag_id g) ctr in
    do body <- match ag_body g with
               | AGVar None => Ok (GVar None)
               | AGVar (Some ci) => do ci' <- res_const gidx ci; Ok (GVar (Some ci'))
               | AGFunc f => do f' <- translate_func gidx f; Ok (GFunc f')
               end;
    do r' <- res_globals gidx r c;
    Ok ({| g_id := id; g_ty := ag_ty g; g_body := body |} :: r')
  end.
Definition translate (a : amodule) : outcome module :=
  let gidx := scaf_globals a 0 0 in
  if nodup_idents gidx then res_globals gidx a 0 else Err.
