(* R1 for whole modules: translate (embed m) = Ok m.
   What the printers emit, read back through the AST, is the module that was
   built: every opcode, flag, type, operand, constant, label and identifier. *)
From Coq Require Import List Bool Arith NArith ZArith Lia.
From LLIR Require Import Lib.Bytes Model.Types Model.IntLit Proofs.IntLitProofs Pipeline.MicroIR.
Import ListNotations.

Arguments def_ident : simpl never.
Arguments gdef_ident : simpl never.

Lemma ident_eqb_spec a b : ident_eqb a b = true <-> a = b.
Proof.
  destruct a, b; cbn; split; try congruence.
  - intros H. apply bytes_eqb_spec in H. congruence.
  - intros [= ->]. apply bytes_eqb_refl.
  - intros H. apply Z.eqb_eq in H. congruence.
  - intros [= ->]. apply Z.eqb_refl.
Qed.
Lemma ident_eqb_refl a : ident_eqb a a = true. Proof. apply ident_eqb_spec; reflexivity. Qed.

Lemma lkey_eqb_spec a b : lkey_eqb a b = true <-> a = b.
Proof.
  destruct a, b; cbn; split; try congruence; rewrite ?andb_true_iff, ?Nat.eqb_eq; try congruence.
  intros [-> ->]; reflexivity. intros [= -> ->]; auto.
Qed.

(* ---- the index inverts the naming (generic in the key type) ---- *)
Section Index.
  Context {K : Type}.
  Variable keqb : K -> K -> bool.
  Hypothesis keqb_spec : forall a b, keqb a b = true <-> a = b.

  Lemma ident_of_lookup k (tbl : list (K * ident)) i : ident_of keqb k tbl = Some i -> lookup_ident i tbl <> None.
  Proof.
    induction tbl as [|[k0 i0] r IH]; cbn; [discriminate|].
    destruct (keqb k k0).
    - intros [= ->]. rewrite ident_eqb_refl. discriminate.
    - intros H. destruct (ident_eqb i i0); [discriminate|]. auto.
  Qed.

  Lemma lookup_nm (tbl : list (K * ident)) k i : nodup_idents tbl = true -> ident_of keqb k tbl = Some i ->
    lookup_ident i tbl = Some k.
  Proof.
    induction tbl as [|[k0 i0] r IH]; cbn; [discriminate|].
    intros Hnd. destruct (lookup_ident i0 r) eqn:Hl0; [discriminate|].
    destruct (keqb k k0) eqn:Ek.
    - intros [= ->]. rewrite ident_eqb_refl. apply keqb_spec in Ek. congruence.
    - intros H. destruct (ident_eqb i i0) eqn:Ei.
      + apply ident_eqb_spec in Ei; subst. exfalso. apply (ident_of_lookup _ _ _ H). exact Hl0.
      + apply IH; assumption.
  Qed.

  Definition valid_key (tbl : list (K * ident)) (k : K) : Prop := ident_of keqb k tbl <> None.
  Lemma nm_lookup (tbl : list (K * ident)) k : nodup_idents tbl = true -> valid_key tbl k ->
    lookup_ident (nm keqb tbl k) tbl = Some k.
  Proof.
    unfold valid_key, nm. intros Hnd Hv. destruct (ident_of keqb k tbl) eqn:E; [|congruence].
    eapply lookup_nm; eassumption.
  Qed.
End Index.

Lemma nat_eqb_spec a b : Nat.eqb a b = true <-> a = b. Proof. apply Nat.eqb_eq. Qed.

(* ---- consistency of the stored numbering (what AssignIDs validates) ---- *)
Definition step_ctr (id : ident) (ctr : Z) : option Z :=
  match id with Name _ => Some ctr | Id n => if Z.eqb n ctr then Some (ctr + 1)%Z else None end.
Fixpoint check {K} (l : list (K * ident)) (ctr : Z) : option Z :=
  match l with [] => Some ctr | (_, id) :: r => match step_ctr id ctr with Some c => check r c | None => None end end.

Lemma def_ident_some id ctr c : step_ctr id ctr = Some c -> def_ident (Some id) ctr = Ok (id, c).
Proof.
  unfold step_ctr, def_ident. destruct id as [s|n]; [intros [= ->]; reflexivity|].
  destruct (Z.eqb n ctr) eqn:E; [|discriminate]. apply Z.eqb_eq in E; subst. intros [= <-]. reflexivity.
Qed.
Lemma gdef_ident_some id ctr c : step_ctr id ctr = Some c -> gdef_ident (Some id) ctr = (id, c).
Proof.
  unfold step_ctr, gdef_ident. destruct id as [s|n]; [intros [= ->]; reflexivity|].
  destruct (Z.eqb n ctr) eqn:E; [|discriminate]. apply Z.eqb_eq in E; subst. intros [= <-]. reflexivity.
Qed.

Lemma check_app {K} (l1 : list (K * ident)) : forall l2 ctr,
  check (l1 ++ l2) ctr = match check l1 ctr with Some c => check l2 c | None => None end.
Proof. induction l1 as [|[k i] r IH]; intros; cbn; [reflexivity|]. destruct (step_ctr i ctr); auto. Qed.

(* ---- well-formedness ---- *)
Section WF.
  Variable choose_hex : Z -> bool.
  Variable gtbl : list (gkey * ident).

  Definition wf_const (c : const) : Prop :=
    match c with
    | CInt w v => w <> 1%N \/ v = 0%Z \/ v = 1%Z
    | CGlobal _ g => valid_key Nat.eqb gtbl g
    | _ => True
    end.
  Definition wf_op (ltbl : list (lkey * ident)) (o : operand) : Prop :=
    match o with OConst c => wf_const c | OLocal _ k => valid_key lkey_eqb ltbl k end.
  Definition wf_inst ltbl (x : inst) : Prop :=
    Forall (wf_op ltbl) (i_ops x) /\ Forall (fun b => valid_key lkey_eqb ltbl (KBlock b)) (i_lbls x).
  Definition wf_block ltbl (bl : block) : Prop := Forall (wf_inst ltbl) (b_insts bl) /\ wf_inst ltbl (b_term bl).
  Record wf_func (f : func) : Prop := {
    wff_check : check (ldefs f) 0 <> None;
    wff_nodup : nodup_idents (ldefs f) = true;
    wff_blocks : Forall (wf_block (ldefs f)) (f_blocks f) }.
  Definition wf_global (g : global) : Prop :=
    match g_body g with
    | GVar None => True
    | GVar (Some c) => wf_const c
    | GFunc f => wf_func f
    end.
End WF.
Record wf (m : module) : Prop := {
  wf_check : check (gdefs m 0) 0 <> None;
  wf_nodup : nodup_idents (gdefs m 0) = true;
  wf_globals : Forall (wf_global (gdefs m 0)) m }.

(* ---- constants and operands ---- *)
Section RoundTrip.
  Variable choose_hex : Z -> bool.
  Variable gtbl : list (gkey * ident).
  Hypothesis gnodup : nodup_idents gtbl = true.

  Lemma res_embed_const c : wf_const gtbl c -> res_const gtbl (embed_const choose_hex gtbl c) = Ok c.
  Proof.
    destruct c as [w v|t|t|t|t g]; cbn [wf_const embed_const res_const]; try reflexivity.
    - intros H. unfold lit_of.
      destruct (IntLit.ident choose_hex w v) as [lit| |] eqn:E.
      + assert (parse_int w lit = IntLit.Ok v) as ->; [|reflexivity].
        destruct (N.eq_dec w 1) as [->|Hw].
        * destruct H as [H|H]; [congruence|]. eapply print_parse_i1; eassumption.
        * eapply print_parse; eassumption.
      + exfalso. unfold IntLit.ident in E. destruct (N.eqb w 1);
          [destruct (int64_of v =? 0)%Z; [discriminate|]; destruct (int64_of v =? 1)%Z; discriminate|].
        destruct ((4096 <=? v)%Z && choose_hex v); discriminate.
      + exfalso. unfold IntLit.ident in E. destruct (N.eqb_spec w 1) as [->|Hw].
        * destruct H as [H|[-> | ->]]; [congruence| |]; cbn in E; discriminate.
        * destruct ((4096 <=? v)%Z && choose_hex v); discriminate.
    - intros H. assert (lookup_ident (nm Nat.eqb gtbl g) gtbl = Some g) as -> by (apply (nm_lookup Nat.eqb nat_eqb_spec); assumption).
      reflexivity.
  Qed.

  Section Func.
    Variable ltbl : list (lkey * ident).
    Hypothesis lnodup : nodup_idents ltbl = true.

    Lemma res_embed_op o : wf_op gtbl ltbl o -> res_op gtbl ltbl (embed_op choose_hex gtbl ltbl o) = Ok o.
    Proof.
      destruct o as [c|t k]; cbn [wf_op embed_op res_op].
      - intros H. rewrite (res_embed_const c H). reflexivity.
      - intros H. rewrite (nm_lookup lkey_eqb lkey_eqb_spec ltbl k lnodup H). reflexivity.
    Qed.

    Lemma res_embed_ops l : Forall (wf_op gtbl ltbl) l ->
      res_ops gtbl ltbl (map (embed_op choose_hex gtbl ltbl) l) = Ok l.
    Proof.
      induction 1 as [|o r Ho Hr IH]; cbn [map res_ops]; [reflexivity|].
      rewrite (res_embed_op o Ho). cbn [bind]. rewrite IH. reflexivity.
    Qed.

    Lemma res_embed_lbls l : Forall (fun b => valid_key lkey_eqb ltbl (KBlock b)) l ->
      res_lbls ltbl (map (fun b => nm lkey_eqb ltbl (KBlock b)) l) = Ok l.
    Proof.
      induction 1 as [|b r Hb Hr IH]; cbn [map res_lbls]; [reflexivity|].
      unfold res_lbl. rewrite (nm_lookup lkey_eqb lkey_eqb_spec ltbl (KBlock b) lnodup Hb). cbn [bind].
      rewrite IH. reflexivity.
    Qed.

    (* one instruction: its own definition threads the counter *)
    Definition inst_step (x : inst) (ctr : Z) : option Z :=
      match i_def x with Some id => step_ctr id ctr | None => Some ctr end.

    Lemma res_embed_inst x ctr c : wf_inst gtbl ltbl x -> inst_step x ctr = Some c ->
      res_inst gtbl ltbl ctr (embed_inst choose_hex gtbl ltbl x) = Ok (x, c).
    Proof.
      intros [Ho Hl] Hs. unfold res_inst, embed_inst. cbn [a_def a_op a_enums a_tys a_ops a_lbls].
      unfold inst_step in Hs. destruct (i_def x) as [id|] eqn:D; cbn [option_map].
      - rewrite (def_ident_some id ctr c Hs). cbn [bind].
        rewrite (res_embed_ops _ Ho). cbn [bind]. rewrite (res_embed_lbls _ Hl). cbn [bind].
        destruct x; cbn in *; subst; reflexivity.
      - injection Hs as <-. cbn [bind].
        rewrite (res_embed_ops _ Ho). cbn [bind]. rewrite (res_embed_lbls _ Hl). cbn [bind].
        destruct x; cbn in *; subst; reflexivity.
    Qed.
  End Func.
End RoundTrip.

Lemma embed_block_label ch g l bl : ab_label (embed_block ch g l bl) = Some (b_id bl). Proof. reflexivity. Qed.
Lemma embed_block_insts ch g l bl : ab_insts (embed_block ch g l bl) = map (embed_inst ch g l) (b_insts bl). Proof. reflexivity. Qed.
Lemma embed_block_term ch g l bl : ab_term (embed_block ch g l bl) = embed_inst ch g l (b_term bl). Proof. reflexivity. Qed.

(* ---- scaffolding an embedded function reproduces its definition table ---- *)
Section Scaffold.
  Variable choose_hex : Z -> bool.
  Variable gtbl : list (gkey * ident).
  Variable ltbl : list (lkey * ident).

  Lemma scaf_params_embed ps : forall i ctr c, check (defs_params ps i) ctr = Some c ->
    scaf_params (map (fun p => (fst p, Some (snd p))) ps) i ctr = Ok (defs_params ps i, c).
  Proof.
    induction ps as [|[t p] r IH]; intros i ctr c; cbn [map scaf_params defs_params check fst snd]; [intros [= ->]; reflexivity|].
    destruct (step_ctr p ctr) as [c1|] eqn:E; [|discriminate]. intros H.
    rewrite (def_ident_some _ _ _ E). cbn [bind]. rewrite (IH _ _ _ H). reflexivity.
  Qed.

  Lemma scaf_insts_embed is : forall b i ctr c, check (defs_insts is b i) ctr = Some c ->
    scaf_insts (map (embed_inst choose_hex gtbl ltbl) is) b i ctr = Ok (defs_insts is b i, c).
  Proof.
    induction is as [|x r IH]; intros b i ctr c; cbn [map scaf_insts defs_insts]; [cbn [check]; intros [= ->]; reflexivity|].
    unfold embed_inst at 1. cbn [a_def]. destruct (i_def x) as [id|]; cbn [option_map check].
    - destruct (step_ctr id ctr) as [c1|] eqn:E; [|discriminate]. intros H.
      rewrite (def_ident_some _ _ _ E). cbn [bind]. rewrite (IH _ _ _ _ H). reflexivity.
    - apply IH.
  Qed.

  Lemma scaf_term_embed t b ctr c : check (defs_term t b) ctr = Some c ->
    scaf_term (embed_inst choose_hex gtbl ltbl t) b ctr = Ok (defs_term t b, c).
  Proof.
    unfold scaf_term, defs_term, embed_inst. cbn [a_def]. destruct (i_def t) as [id|]; cbn [option_map check].
    - destruct (step_ctr id ctr) as [c1|] eqn:E; [|discriminate]. cbn [check]. intros [= <-].
      rewrite (def_ident_some _ _ _ E). reflexivity.
    - cbn [check]. intros [= <-]. reflexivity.
  Qed.

  Lemma scaf_blocks_embed bs : forall b ctr c, check (defs_blocks bs b) ctr = Some c ->
    scaf_blocks (map (embed_block choose_hex gtbl ltbl) bs) b ctr = Ok (defs_blocks bs b, c).
  Proof.
    induction bs as [|bl r IH]; intros b ctr c; cbn [map scaf_blocks defs_blocks]; [cbn [check]; intros [= ->]; reflexivity|].
    cbn [check]. destruct (step_ctr (b_id bl) ctr) as [c1|] eqn:E; [|discriminate].
    rewrite check_app.
    destruct (check (defs_insts (b_insts bl) b 0) c1) as [c2|] eqn:E2; [|discriminate].
    rewrite check_app.
    destruct (check (defs_term (b_term bl) b) c2) as [c3|] eqn:E3; [|discriminate].
    intros H. rewrite embed_block_label, embed_block_insts, embed_block_term.
    rewrite (def_ident_some _ _ _ E). cbn [bind].
    rewrite (scaf_insts_embed _ _ _ _ _ E2). cbn [bind].
    rewrite (scaf_term_embed _ _ _ _ E3). cbn [bind].
    rewrite (IH _ _ _ H). reflexivity.
  Qed.

  (* ---- the fill pass ---- *)
  Hypothesis gnodup : nodup_idents gtbl = true.
  Hypothesis lnodup : nodup_idents ltbl = true.

  Lemma res_params_embed ps : forall i ctr c, check (defs_params ps i) ctr = Some c ->
    res_params ctr (map (fun p => (fst p, Some (snd p))) ps) = Ok (ps, c).
  Proof.
    induction ps as [|[t p] r IH]; intros i ctr c; cbn [map res_params defs_params check fst snd]; [intros [= ->]; reflexivity|].
    destruct (step_ctr p ctr) as [c1|] eqn:E; [|discriminate]. intros H.
    rewrite (def_ident_some _ _ _ E). cbn [bind]. rewrite (IH _ _ _ H). reflexivity.
  Qed.

  Lemma res_insts_embed is : Forall (wf_inst gtbl ltbl) is ->
    forall b i ctr c, check (defs_insts is b i) ctr = Some c ->
    res_insts gtbl ltbl ctr (map (embed_inst choose_hex gtbl ltbl) is) = Ok (is, c).
  Proof.
    induction 1 as [|x r Hx Hr IH]; intros b i ctr c; cbn [map res_insts defs_insts]; [cbn [check]; intros [= ->]; reflexivity|].
    destruct (i_def x) as [id|] eqn:D; cbn [check].
    - destruct (step_ctr id ctr) as [c1|] eqn:E; [|discriminate]. intros H.
      rewrite (res_embed_inst choose_hex gtbl gnodup ltbl lnodup x ctr c1 Hx); [|unfold inst_step; rewrite D; exact E].
      cbn [bind]. rewrite (IH _ _ _ _ H). reflexivity.
    - intros H. rewrite (res_embed_inst choose_hex gtbl gnodup ltbl lnodup x ctr ctr Hx); [|unfold inst_step; rewrite D; reflexivity].
      cbn [bind]. rewrite (IH _ _ _ _ H). reflexivity.
  Qed.

  Lemma res_blocks_embed bs : Forall (wf_block gtbl ltbl) bs ->
    forall b ctr c, check (defs_blocks bs b) ctr = Some c ->
    res_blocks gtbl ltbl ctr (map (embed_block choose_hex gtbl ltbl) bs) = Ok (bs, c).
  Proof.
    induction 1 as [|bl r [Hi Ht] Hr IH]; intros b ctr c; cbn [map res_blocks defs_blocks]; [cbn [check]; intros [= ->]; reflexivity|].
    cbn [check]. destruct (step_ctr (b_id bl) ctr) as [c1|] eqn:E; [|discriminate].
    rewrite check_app.
    destruct (check (defs_insts (b_insts bl) b 0) c1) as [c2|] eqn:E2; [|discriminate].
    rewrite check_app.
    destruct (check (defs_term (b_term bl) b) c2) as [c3|] eqn:E3; [|discriminate].
    intros H. rewrite embed_block_label, embed_block_insts, embed_block_term.
    rewrite (def_ident_some _ _ _ E). cbn [bind].
    rewrite (res_insts_embed _ Hi _ _ _ _ E2). cbn [bind].
    rewrite (res_embed_inst choose_hex gtbl gnodup ltbl lnodup (b_term bl) c2 c3 Ht).
    - cbn [bind]. rewrite (IH _ _ _ H). cbn [bind]. destruct bl; reflexivity.
    - unfold inst_step, defs_term in *. destruct (i_def (b_term bl)); cbn [check] in E3.
      + destruct (step_ctr i c2); congruence.
      + exact E3.
  Qed.
End Scaffold.

(* ---- functions ---- *)
Theorem translate_embed_func choose_hex gtbl f : nodup_idents gtbl = true -> wf_func gtbl f ->
  translate_func gtbl (embed_func choose_hex gtbl f) = Ok f.
Proof.
  intros gnodup [Hc Hnd Hb]. unfold translate_func, embed_func, ldefs in *. cbn [af_ret af_params af_blocks].
  rewrite check_app in Hc.
  destruct (check (defs_params (f_params f) 0) 0) as [c1|] eqn:E1; [|congruence].
  destruct (check (defs_blocks (f_blocks f) 0) c1) as [c2|] eqn:E2; [|congruence].
  rewrite (scaf_params_embed _ _ _ _ E1). cbn [bind].
  rewrite (scaf_blocks_embed choose_hex gtbl _ _ _ _ _ E2). cbn [bind].
  rewrite Hnd.
  rewrite (res_params_embed _ _ _ _ E1). cbn [bind].
  rewrite (res_blocks_embed choose_hex gtbl _ gnodup Hnd _ Hb _ _ _ E2). cbn [bind].
  destruct f; reflexivity.
Qed.

(* ---- globals and the module ---- *)
Lemma embed_global_id ch g x : ag_id (embed_global ch g x) = Some (g_id x). Proof. reflexivity. Qed.
Lemma embed_global_ty ch g x : ag_ty (embed_global ch g x) = g_ty x. Proof. reflexivity. Qed.
Lemma scaf_globals_embed choose_hex gtbl m : forall i ctr c, check (gdefs m i) ctr = Some c ->
  scaf_globals (map (embed_global choose_hex gtbl) m) i ctr = gdefs m i.
Proof.
  induction m as [|g r IH]; intros i ctr c; cbn [map scaf_globals gdefs check]; [reflexivity|].
  destruct (step_ctr (g_id g) ctr) as [c1|] eqn:E; [|discriminate]. intros H.
  rewrite embed_global_id, (gdef_ident_some _ _ _ E). f_equal. eapply IH. exact H.
Qed.

Lemma res_globals_embed choose_hex gtbl : nodup_idents gtbl = true ->
  forall m, Forall (wf_global gtbl) m -> forall i ctr c, check (gdefs m i) ctr = Some c ->
  res_globals gtbl (map (embed_global choose_hex gtbl) m) ctr = Ok m.
Proof.
  intros gnodup m Hm. induction Hm as [|g r Hg Hr IH]; intros i ctr c; cbn [map res_globals gdefs check]; [reflexivity|].
  destruct (step_ctr (g_id g) ctr) as [c1|] eqn:E; [|discriminate]. intros H.
  rewrite embed_global_id, embed_global_ty, (gdef_ident_some _ _ _ E).
  unfold wf_global in Hg. destruct g as [gid gty gbody]. cbn [g_id g_ty g_body embed_global ag_body] in *.
  destruct gbody as [[ci|]|f]; cbn [option_map].
  - rewrite (res_embed_const choose_hex gtbl gnodup ci Hg). cbn [bind]. rewrite (IH _ _ _ H). reflexivity.
  - cbn [bind]. rewrite (IH _ _ _ H). reflexivity.
  - rewrite (translate_embed_func choose_hex gtbl f gnodup Hg). cbn [bind]. rewrite (IH _ _ _ H). reflexivity.
Qed.

(* R1: what the printers emit denotes the module that was built *)
Theorem translate_embed choose_hex m : wf m -> translate (embed choose_hex m) = Ok m.
Proof.
  intros [Hc Hnd Hg]. unfold translate, embed.
  destruct (check (gdefs m 0) 0) as [c|] eqn:E; [|congruence].
  rewrite (scaf_globals_embed choose_hex (gdefs m 0) m 0 0 c E), Hnd.
  eapply res_globals_embed; eassumption.
Qed.
Print Assumptions translate_embed.

(* C02 at the AST level: printing, parsing and printing again gives the same AST *)
Corollary embed_fixpoint choose_hex m m' : wf m -> translate (embed choose_hex m) = Ok m' ->
  embed choose_hex m' = embed choose_hex m.
Proof. intros H E. rewrite (translate_embed choose_hex m H) in E. congruence. Qed.

(* non-vacuity: a module with an unnamed global, a global initialised with the address of a
   function defined later, an unnamed parameter and block, a loop, a void call and a forward branch *)
Definition i32 := TInt 32.
Definition ex_func : func :=
  {| f_ret := i32;
     f_params := [(i32, Name [Byte.x78]); (i32, Id 0)];
     f_blocks :=
       [ {| b_id := Id 1;
            b_insts := [ {| i_def := Some (Id 2); i_op := 13; i_enums := [1]; i_tys := [];
                            i_ops := [OLocal i32 (KParam 0); OLocal i32 (KParam 1)]; i_lbls := [] |};
                         {| i_def := None; i_op := 56; i_enums := []; i_tys := [];
                            i_ops := [OConst (CGlobal (TPtr (TFunc TVoid [] false) 0) 2)]; i_lbls := [] |} ];
            b_term := {| i_def := None; i_op := 100; i_enums := []; i_tys := []; i_ops := []; i_lbls := [1] |} |};
         {| b_id := Name [Byte.x6c];
            b_insts := [ {| i_def := Some (Name [Byte.x79]); i_op := 13; i_enums := []; i_tys := [];
                            i_ops := [OLocal i32 (KInst 0 0); OConst (CInt 32 (-7))]; i_lbls := [] |} ];
            b_term := {| i_def := None; i_op := 101; i_enums := []; i_tys := [];
                         i_ops := [OConst (CInt 1 1)]; i_lbls := [1; 0] |} |} ] |}.
Definition ex_module : module :=
  [ {| g_id := Id 0; g_ty := i32; g_body := GVar (Some (CInt 32 4096)) |};
    {| g_id := Name [Byte.x70]; g_ty := TPtr i32 0; g_body := GVar (Some (CGlobal (TPtr i32 0) 0)) |};
    {| g_id := Name [Byte.x67]; g_ty := TFunc TVoid [] false; g_body := GVar None |};
    {| g_id := Id 1; g_ty := TFunc i32 [i32; i32] false; g_body := GFunc ex_func |} ].

Ltac solve_wf :=
  repeat first
    [ exact I
    | apply Forall_nil
    | apply Forall_cons
    | split
    | (vm_compute; discriminate)
    | reflexivity
    | (left; discriminate)
    | (right; right; reflexivity)
    | (right; left; reflexivity) ].

Example ex_module_wf : wf ex_module.
Proof.
  split; [vm_compute; discriminate | reflexivity |].
  unfold ex_module. repeat apply Forall_cons; try apply Forall_nil; unfold wf_global; cbn [g_body].
  - left; discriminate.
  - vm_compute; discriminate.
  - exact I.
  - split; [vm_compute; discriminate | reflexivity |].
    unfold ex_func. cbn [f_blocks]. repeat apply Forall_cons; try apply Forall_nil;
      unfold wf_block, wf_inst; cbn [b_insts b_term i_ops i_lbls]; solve_wf.
Qed.
Example ex_roundtrip : translate (embed (fun _ => true) ex_module) = Ok ex_module.
Proof. apply translate_embed. exact ex_module_wf. Qed.
