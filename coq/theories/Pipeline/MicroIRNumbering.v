(* C08 on uIR, for arbitrary ASTs: the numeric identifiers of a translated function's definitions are
   0, 1, 2, ... in walk order (parameters, then per block: label, value instructions, terminator) -- LLVM's
   implicit numbering -- so a use %N, which resolves to the definition carrying the identifier N
   (MicroIRResolve.use_is_def, with pairwise distinct identifiers), binds the (N+1)-th unnamed definition. *)
From Coq Require Import List Bool Arith NArith ZArith Lia.
From LLIR Require Import Lib.Bytes Model.Types Pipeline.MicroIR Pipeline.MicroIRProofs Pipeline.MicroIRResolve.
Import ListNotations.
Local Open Scope Z_scope.

Fixpoint nums (tbl : list (lkey * ident)) : list Z :=
  match tbl with
  | [] => []
  | (_, Id n) :: r => n :: nums r
  | (_, Name _) :: r => nums r
  end.
Fixpoint zseq (start : Z) (n : nat) : list Z :=
  match n with O => [] | S n' => start :: zseq (start + 1) n' end.

Lemma nums_app a b : nums (a ++ b) = (nums a ++ nums b)%list.
Proof. induction a as [|[k [s|n]] r IH]; cbn; [reflexivity|exact IH|f_equal; exact IH]. Qed.
Lemma zseq_app s a b : zseq s (a + b) = (zseq s a ++ zseq (s + Z.of_nat a) b)%list.
Proof.
  revert s. induction a as [|a IH]; intros s; cbn [zseq Nat.add app].
  - rewrite Z.add_0_r. reflexivity.
  - f_equal. rewrite IH. f_equal. f_equal. lia.
Qed.

(* the counter counts the numeric identifiers handed out *)
Definition counted (tbl : list (lkey * ident)) (c0 c1 : Z) : Prop :=
  c0 <= c1 /\ nums tbl = zseq c0 (Z.to_nat (c1 - c0)).

Lemma counted_nil c : counted [] c c.
Proof. split; [lia|]. rewrite Z.sub_diag. reflexivity. Qed.
Lemma counted_app a b c0 c1 c2 : counted a c0 c1 -> counted b c1 c2 -> counted (a ++ b) c0 c2.
Proof.
  intros [L1 N1] [L2 N2]. split; [lia|]. rewrite nums_app, N1, N2.
  replace (Z.to_nat (c2 - c0)) with (Z.to_nat (c1 - c0) + Z.to_nat (c2 - c1))%nat by lia.
  rewrite zseq_app. f_equal. f_equal. lia.
Qed.
Lemma counted_def d ctr id c1 k : def_ident d ctr = Ok (id, c1) -> counted [(k, id)] ctr c1.
Proof.
  unfold def_ident. destruct d as [[s|n]|].
  - intros [= <- <-]. apply counted_nil.
  - destruct (Z.eqb n ctr); [|discriminate]. intros [= <- <-]. split; [lia|].
    replace (ctr + 1 - ctr) with 1 by lia. reflexivity.
  - intros [= <- <-]. split; [lia|]. replace (ctr + 1 - ctr) with 1 by lia. reflexivity.
Qed.

Lemma scaf_params_counted ps : forall i ctr tbl c, scaf_params ps i ctr = Ok (tbl, c) -> counted tbl ctr c.
Proof.
  induction ps as [|[t p] r IH]; intros i ctr tbl c; cbn [scaf_params].
  - intros [= <- <-]. apply counted_nil.
  - destruct (def_ident p ctr) as [[id c1]| |] eqn:E; cbn [bind]; try discriminate.
    destruct (scaf_params r (S i) c1) as [[l c2]| |] eqn:E2; cbn [bind]; try discriminate.
    intros [= <- <-]. apply (counted_app [(KParam i, id)] l ctr c1 c2); [eapply counted_def; exact E|eapply IH; exact E2].
Qed.
Lemma scaf_insts_counted is : forall b i ctr tbl c, scaf_insts is b i ctr = Ok (tbl, c) -> counted tbl ctr c.
Proof.
  induction is as [|x r IH]; intros b i ctr tbl c; cbn [scaf_insts].
  - intros [= <- <-]. apply counted_nil.
  - destruct (a_def x) as [d|]; [|apply IH].
    destruct (def_ident d ctr) as [[id c1]| |] eqn:E; cbn [bind]; try discriminate.
    destruct (scaf_insts r b (S i) c1) as [[l c2]| |] eqn:E2; cbn [bind]; try discriminate.
    intros [= <- <-]. apply (counted_app [(KInst b i, id)] l ctr c1 c2); [eapply counted_def; exact E|eapply IH; exact E2].
Qed.
Lemma scaf_term_counted t b ctr tbl c : scaf_term t b ctr = Ok (tbl, c) -> counted tbl ctr c.
Proof.
  unfold scaf_term. destruct (a_def t) as [d|].
  - destruct (def_ident d ctr) as [[id c1]| |] eqn:E; cbn [bind]; try discriminate.
    intros [= <- <-]. eapply counted_def; exact E.
  - intros [= <- <-]. apply counted_nil.
Qed.
Lemma scaf_blocks_counted bs : forall b ctr tbl c, scaf_blocks bs b ctr = Ok (tbl, c) -> counted tbl ctr c.
Proof.
  induction bs as [|bl r IH]; intros b ctr tbl c; cbn [scaf_blocks].
  - intros [= <- <-]. apply counted_nil.
  - destruct (def_ident (ab_label bl) ctr) as [[id c1]| |] eqn:E0; cbn [bind]; try discriminate.
    destruct (scaf_insts (ab_insts bl) b 0 c1) as [[li c2]| |] eqn:E1; cbn [bind]; try discriminate.
    destruct (scaf_term (ab_term bl) b c2) as [[lt c3]| |] eqn:E2; cbn [bind]; try discriminate.
    destruct (scaf_blocks r (S b) c3) as [[l c4]| |] eqn:E3; cbn [bind]; try discriminate.
    intros [= <- <-].
    apply (counted_app [(KBlock b, id)] _ ctr c1 c4); [eapply counted_def; exact E0|].
    apply (counted_app li _ c1 c2 c4); [eapply scaf_insts_counted; exact E1|].
    apply (counted_app lt l c2 c3 c4); [eapply scaf_term_counted; exact E2|eapply IH; exact E3].
Qed.

(* the definitions of a translated function are numbered as LLVM numbers them *)
Theorem translated_numbering gidx a f : translate_func gidx a = Ok f ->
  exists n, nums (ldefs f) = zseq 0 n.
Proof.
  intros H. destruct (translated_table gidx a f H) as (c & S1 & c' & S2 & _).
  pose proof (scaf_params_counted _ _ _ _ _ S1) as C1. pose proof (scaf_blocks_counted _ _ _ _ _ S2) as C2.
  destruct (counted_app _ _ _ _ _ C1 C2) as [_ N]. exists (Z.to_nat (c' - 0)). exact N.
Qed.

(* position j of the numeric identifiers holds j *)
Lemma zseq_nth s n j : (j < n)%nat -> nth_error (zseq s n) j = Some (s + Z.of_nat j).
Proof.
  revert s j. induction n as [|n IH]; intros s j Hj; [lia|]. destruct j as [|j]; cbn [zseq nth_error].
  - f_equal. lia.
  - rewrite IH by lia. f_equal. lia.
Qed.

(* so: a local use %N that the translation accepted is bound to the definition that is the (N+1)-th in the
   walk order among those with a numeric identifier *)
Theorem use_binds_nth_unnamed gidx a f t N o :
  translate_func gidx a = Ok f -> res_op gidx (ldefs f) (ALocal t (Id N)) = Ok o ->
  exists k, o = OLocal t k /\ In (k, Id N) (ldefs f) /\ (0 <= N) /\ nth_error (nums (ldefs f)) (Z.to_nat N) = Some N.
Proof.
  intros H R. destruct (use_is_def gidx (ldefs f) t (Id N) o R) as (k & -> & Hin).
  destruct (translated_numbering gidx a f H) as [n E].
  assert (In N (nums (ldefs f))) as HN.
  { clear - Hin. induction (ldefs f) as [|[k0 [s|m]] r IH]; [contradiction| |].
    - destruct Hin as [X|X]; [discriminate|]. cbn [nums]. apply IH, X.
    - cbn [nums]. destruct Hin as [X|X]; [injection X as _ ->; left; reflexivity|right; apply IH, X]. }
  rewrite E in HN |- *.
  assert (forall s n0 x, In x (zseq s n0) -> s <= x < s + Z.of_nat n0) as R0.
  { intros s n0. revert s. induction n0 as [|n0 IH]; intros s x Hx; [contradiction|]. cbn [zseq] in Hx.
    destruct Hx as [<-|Hx]; [lia|]. specialize (IH _ _ Hx). lia. }
  specialize (R0 0 n N HN). exists k. repeat split; try assumption; try lia.
  rewrite zseq_nth by lia. f_equal. lia.
Qed.
Print Assumptions use_binds_nth_unnamed.
