(* LLVM's reading of an identifier token (lib/AsmParser/LLLexer.cpp, LexVar and
   LexUIntID), stated as a specification: what follows the sigil is a quoted
   string, a bare name [-a-zA-Z$._][-a-zA-Z$._0-9]*, or a run of digits. *)
From Coq Require Import List Bool NArith ZArith.
From Coq Require Import Strings.Byte.
From LLIR Require Import Lib.Bytes Lib.Radix Model.Enc Model.TypeString.
Import ListNotations.
Local Open Scope N_scope.

Definition llvm_var (body : bytes) : option ident :=
  match body with
  | b :: r =>
    if bN b =? 34 then
      let '(q, rest) := span (fun c => negb (bN c =? 34)) r in
      match rest with
      | [_] => Some (Name (unescape q))          (* the closing quote ends the token *)
      | _ => None
      end
    else if in_head b then (if forallb in_tail r then Some (Name body) else None)
    else if isdigit b then
      match parse_dec_N body with
      | Some v => let v64 := v mod 2 ^ 64 in          (* atoull wraps *)
                  if v64 <? 2 ^ 32 then Some (ID (Z.of_N v64)) else None   (* "invalid value number (too large)" *)
      | None => None
      end
    else None
  | [] => None
  end.

Definition llvm_global (tok : bytes) : option ident :=
  match tok with b :: r => if bN b =? 64 then llvm_var r else None | [] => None end.
Definition llvm_local (tok : bytes) : option ident :=
  match tok with b :: r => if bN b =? 37 then llvm_var r else None | [] => None end.

(* the class of names the printer emits bare although LLVM does not read them as names *)
Definition lead_digit_bare (n : bytes) : bool :=
  forallb in_tail n && (match n with b :: _ => isdigit b | [] => false end)
  && match parse_uint64 n with Some _ => false | None => true end.
