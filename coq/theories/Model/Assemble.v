(* Assemble.v: step 8 of the translator (asm/translate.go addTypeDefsToModule ..
   addMetadataDefsToModule) and the sort at print time (ir/module.go, named metadata).
   A Go map is an association list without duplicate keys; its iteration order
   is the order of that list, and two iterations of one map are permutations of
   one another. The sort is a parameter constrained only by what package sort
   promises: the result is a permutation of the input, ordered by the comparison. *)
From Coq Require Import List Bool Sorting.Sorted Sorting.Permutation.
Import ListNotations.

Section Assemble.
  Variables K V : Type.
  Variable eqb : K -> K -> bool.
  Variable ltb : K -> K -> bool.

  Fixpoint lookup (k : K) (m : list (K * V)) : option V :=
    match m with
    | [] => None
    | (k', v) :: r => if eqb k k' then Some v else lookup k r
    end.

  (* collect keys in iteration order, sort them, fetch each definition *)
  Definition assemble (sort : list K -> list K) (iter : list (K * V)) : list (K * option V) :=
    map (fun k => (k, lookup k iter)) (sort (map fst iter)).

  (* reference sorter used to run the model: insertion sort *)
  Fixpoint ins_sorted (k : K) (l : list K) : list K :=
    match l with
    | [] => [k]
    | x :: r => if ltb x k then x :: ins_sorted k r else k :: l
    end.
  Definition isort (l : list K) : list K := fold_right ins_sorted [] l.
End Assemble.
Arguments lookup {K V}. Arguments assemble {K V}. Arguments ins_sorted {K}. Arguments isort {K}.

(* globals, aliases, ifuncs and functions: one pass over the recorded textual
   order, appending to one of four slices (addGlobalEntitiesToModule) *)
Inductive gkind := GVar | GAlias | GIFunc | GFunc.
Definition gkind_eqb (a b : gkind) : bool :=
  match a, b with GVar, GVar | GAlias, GAlias | GIFunc, GIFunc | GFunc, GFunc => true | _, _ => false end.
Section Globals.
  Variable G : Type.
  Variable kind : G -> gkind.
  Definition of_kind (k : gkind) (order : list G) : list G := filter (fun g => gkind_eqb (kind g) k) order.
  Definition assemble_globals (order : list G) : list G * list G * list G * list G :=
    (of_kind GVar order, of_kind GAlias order, of_kind GIFunc order, of_kind GFunc order).
End Globals.
Arguments of_kind {G}. Arguments assemble_globals {G}.
