(* Model of the String methods of ir/types/types.go (how a type is written
   when it is used), of types.Equal as implemented (pointer types compare their
   printed strings), and a parser for the printed form. *)
From Coq Require Import List Bool NArith String.
From Coq Require Import Strings.Byte.
From LLIR Require Import Lib.Bytes Lib.Radix Model.Types Model.Enc.
Import ListNotations.

Definition lit (s : string) : bytes := list_byte_of_string s.

Definition fkind_string (k : fkind) : bytes :=
  match k with
  | FHalf => lit "half" | FFloat => lit "float" | FDouble => lit "double"
  | FX86_FP80 => lit "x86_fp80" | FFP128 => lit "fp128" | FPPC_FP128 => lit "ppc_fp128"
  end.

Fixpoint join (l : list bytes) : bytes :=
  match l with
  | [] => []
  | [x] => x
  | x :: r => x ++ lit ", " ++ join r
  end.

Definition addrspace_string (a : N) : bytes :=
  if N.eqb a 0 then [] else lit " addrspace(" ++ print_dec_N a ++ lit ")".

Fixpoint ty_string (t : ty) : bytes :=
  match t with
  | TVoid => lit "void" | TMMX => lit "x86_mmx" | TLabel => lit "label"
  | TToken => lit "token" | TMetadata => lit "metadata"
  | TInt n => lit "i" ++ print_dec_N n
  | TFloat k => fkind_string k
  | TPtr e a => ty_string e ++ addrspace_string a ++ lit "*"
  | TVec s n e => lit "<" ++ (if s then lit "vscale x " else []) ++ print_dec_N n ++ lit " x " ++ ty_string e ++ lit ">"
  | TArr n e => lit "[" ++ print_dec_N n ++ lit " x " ++ ty_string e ++ lit "]"
  | TStruct p fs =>
      match fs with
      | [] => if p then lit "<{}>" else lit "{}"
      | _ => (if p then lit "<" else []) ++ lit "{ " ++ join (map ty_string fs) ++ lit " }" ++ (if p then lit ">" else [])
      end
  | TNamed n => lit "%" ++ escape_ident n
  | TFunc r ps v =>
      ty_string r ++ lit " (" ++ join (map ty_string ps)
      ++ (if v then (match ps with [] => [] | _ => lit ", " end) ++ lit "..." else []) ++ lit ")"
  end.

(* types.Equal as implemented: per-kind methods; pointer types compare printed strings;
   struct types compare names as soon as one of them is named *)
Fixpoint equal_go (t u : ty) : bool :=
  match t with
  | TVoid => match u with TVoid => true | _ => false end
  | TMMX => match u with TMMX => true | _ => false end
  | TLabel => match u with TLabel => true | _ => false end
  | TToken => match u with TToken => true | _ => false end
  | TMetadata => match u with TMetadata => true | _ => false end
  | TInt a => match u with TInt b => N.eqb a b | _ => false end
  | TFloat a => match u with TFloat b => fkind_eqb a b | _ => false end
  | TPtr _ _ => bytes_eqb (ty_string t) (ty_string u)
  | TVec s1 n1 e1 => match u with TVec s2 n2 e2 => Bool.eqb s1 s2 && N.eqb n1 n2 && equal_go e1 e2 | _ => false end
  | TArr n1 e1 => match u with TArr n2 e2 => N.eqb n1 n2 && equal_go e1 e2 | _ => false end
  | TStruct p1 f1 =>
      match u with
      | TStruct p2 f2 =>
          Bool.eqb p1 p2 &&
          (fix go (a b : list ty) : bool :=
             match a, b with
             | [], [] => true
             | x :: a', y :: b' => equal_go x y && go a' b'
             | _, _ => false
             end) f1 f2
      | _ => false        (* a literal struct against a named one: names "" and n differ *)
      end
  | TNamed a => match u with TNamed b => bytes_eqb a b | _ => false end
  | TFunc r1 p1 v1 =>
      match u with
      | TFunc r2 p2 v2 =>
          equal_go r1 r2 &&
          (fix go (a b : list ty) : bool :=
             match a, b with
             | [], [] => true
             | x :: a', y :: b' => equal_go x y && go a' b'
             | _, _ => false
             end) p1 p2 && Bool.eqb v1 v2
      | _ => false
      end
  end.

(* ------------------------------------------------------------------ *)
(* a parser for printed types                                          *)
Fixpoint span (p : byte -> bool) (s : bytes) : bytes * bytes :=
  match s with
  | b :: r => if p b then let '(a, c) := span p r in (b :: a, c) else ([], s)
  | [] => ([], [])
  end.

Fixpoint strip (p s : bytes) : option bytes :=
  match p, s with
  | [], _ => Some s
  | a :: p', b :: s' => if byte_eqb a b then strip p' s' else None
  | _ :: _, [] => None
  end.

Definition word_end (s : bytes) : bool := match s with b :: _ => negb (in_tail b) | [] => true end.

Definition keywords : list (bytes * ty) :=
  [ (lit "void", TVoid); (lit "x86_mmx", TMMX); (lit "label", TLabel); (lit "token", TToken);
    (lit "metadata", TMetadata); (lit "half", TFloat FHalf); (lit "float", TFloat FFloat);
    (lit "double", TFloat FDouble); (lit "x86_fp80", TFloat FX86_FP80); (lit "fp128", TFloat FFP128);
    (lit "ppc_fp128", TFloat FPPC_FP128) ].

Fixpoint parse_keyword (kws : list (bytes * ty)) (s : bytes) : option (ty * bytes) :=
  match kws with
  | [] => None
  | (k, t) :: r => match strip k s with
                   | Some rest => if word_end rest then Some (t, rest) else parse_keyword r s
                   | None => parse_keyword r s
                   end
  end.

Definition parse_number (s : bytes) : option (N * bytes) :=
  let '(d, r) := span isdigit s in
  match parse_dec_N d with Some n => Some (n, r) | None => None end.

(* %name or %"escaped name" *)
Definition parse_name (s : bytes) : option (bytes * bytes) :=
  match s with
  | b :: r =>
    if N.eqb (bN b) 34 then
      let '(q, r') := span (fun c => negb (N.eqb (bN c) 34)) r in
      match r' with
      | _ :: r'' => Some (unescape q, r'')
      | [] => None
      end
    else let '(w, r') := span in_tail s in
         match w with [] => None | _ => Some (w, r') end
  | [] => None
  end.

(* the three layers of the parser, parameterised by the recursive call *)
Section Layers.
  Variable rec : bytes -> option (ty * bytes).

  (* comma-separated types; a following "..." belongs to the caller *)
  Fixpoint parse_list (g : nat) (s : bytes) : option (list ty * bytes) :=
    match g with
    | O => None
    | S g' =>
      match rec s with
      | Some (t, r) =>
        match strip (lit ", ") r with
        | Some r' =>
          match strip (lit "...") r' with
          | Some _ => Some ([t], r)
          | None => match parse_list g' r' with
                    | Some (ts, r'') => Some (t :: ts, r'')
                    | None => None
                    end
          end
        | None => Some ([t], r)
        end
      | None => None
      end
    end.

  Definition parse_base (s : bytes) : option (ty * bytes) :=
    match parse_keyword keywords s with
    | Some x => Some x
    | None =>
      match s with
      | b :: r =>
        if N.eqb (bN b) 105 then
          match parse_number r with Some (n, r') => Some (TInt n, r') | None => None end
        else if N.eqb (bN b) 37 then
          match parse_name r with Some (n, r') => Some (TNamed n, r') | None => None end
        else if N.eqb (bN b) 91 then
          match parse_number r with
          | Some (n, r1) =>
            match strip (lit " x ") r1 with
            | Some r2 => match rec r2 with
                         | Some (e, r3) => match strip (lit "]") r3 with Some r4 => Some (TArr n e, r4) | None => None end
                         | None => None end
            | None => None end
          | None => None end
        else if N.eqb (bN b) 123 then
          match strip (lit "}") r with
          | Some r1 => Some (TStruct false [], r1)
          | None =>
            match strip (lit " ") r with
            | Some r1 => match parse_list (S (List.length s)) r1 with
                         | Some (fs, r2) => match strip (lit " }") r2 with Some r3 => Some (TStruct false fs, r3) | None => None end
                         | None => None end
            | None => None end
          end
        else if N.eqb (bN b) 60 then
          match strip (lit "{}>") r with
          | Some r1 => Some (TStruct true [], r1)
          | None =>
            match strip (lit "{ ") r with
            | Some r1 => match parse_list (S (List.length s)) r1 with
                         | Some (fs, r2) => match strip (lit " }>") r2 with Some r3 => Some (TStruct true fs, r3) | None => None end
                         | None => None end
            | None =>
              let '(sc, r0) := match strip (lit "vscale x ") r with Some r' => (true, r') | None => (false, r) end in
              match parse_number r0 with
              | Some (n, r1) =>
                match strip (lit " x ") r1 with
                | Some r2 => match rec r2 with
                             | Some (e, r3) => match strip (lit ">") r3 with Some r4 => Some (TVec sc n e, r4) | None => None end
                             | None => None end
                | None => None end
              | None => None end
            end
          end
        else None
      | [] => None
      end
    end.

  Fixpoint parse_suffixes (g : nat) (acc : ty) (s : bytes) : option (ty * bytes) :=
    match g with
    | O => None
    | S g' =>
      match strip (lit "*") s with
      | Some r => parse_suffixes g' (TPtr acc 0) r
      | None =>
        match strip (lit " addrspace(") s with
        | Some r =>
          match parse_number r with
          | Some (a, r1) => match strip (lit ")*") r1 with
                            | Some r2 => parse_suffixes g' (TPtr acc a) r2
                            | None => None end
          | None => None end
        | None =>
          match strip (lit " (") s with
          | Some r =>
            match strip (lit ")") r with
            | Some r1 => parse_suffixes g' (TFunc acc [] false) r1
            | None =>
              match strip (lit "...)") r with
              | Some r1 => parse_suffixes g' (TFunc acc [] true) r1
              | None =>
                match parse_list (S (List.length s)) r with
                | Some (ps, r1) =>
                  match strip (lit ")") r1 with
                  | Some r2 => parse_suffixes g' (TFunc acc ps false) r2
                  | None => match strip (lit ", ...)") r1 with
                            | Some r2 => parse_suffixes g' (TFunc acc ps true) r2
                            | None => None end
                  end
                | None => None end
              end
            end
          | None => Some (acc, s)
          end
        end
      end
    end.
End Layers.

Fixpoint parse_ty (fuel : nat) (s : bytes) : option (ty * bytes) :=
  match fuel with
  | O => None
  | S f =>
    match parse_base (parse_ty f) s with
    | Some (b, r) => parse_suffixes (parse_ty f) (S (List.length r)) b r
    | None => None
    end
  end.

Definition parse_type (s : bytes) : option ty :=
  match parse_ty (S (List.length s)) s with Some (t, []) => Some t | _ => None end.
