(* Model of ir/types/types.go: the type tree.  Identified (named) struct types
   are leaves [TNamed]: in the universes the property speaks about (unique
   names, only structs named) a named struct is determined by its name, and
   recursion only goes through names. *)
From Coq Require Import List Bool NArith.
From LLIR Require Import Lib.Bytes.
Import ListNotations.

Inductive fkind := FHalf | FFloat | FDouble | FX86_FP80 | FFP128 | FPPC_FP128.

Inductive ty :=
| TVoid | TMMX | TLabel | TToken | TMetadata
| TInt (bits : N)
| TFloat (k : fkind)
| TPtr (elem : ty) (addrspace : N)
| TVec (scalable : bool) (len : N) (elem : ty)
| TArr (len : N) (elem : ty)
| TStruct (packed : bool) (fields : list ty)       (* literal struct *)
| TNamed (name : bytes)                              (* identified struct *)
| TFunc (ret : ty) (params : list ty) (variadic : bool).

Definition fkind_eqb (a b : fkind) : bool :=
  match a, b with
  | FHalf, FHalf | FFloat, FFloat | FDouble, FDouble
  | FX86_FP80, FX86_FP80 | FFP128, FFP128 | FPPC_FP128, FPPC_FP128 => true
  | _, _ => false
  end.

(* structural equality, the specification side of C16 *)
Fixpoint ty_eqb (t u : ty) : bool :=
  match t, u with
  | TVoid, TVoid | TMMX, TMMX | TLabel, TLabel | TToken, TToken | TMetadata, TMetadata => true
  | TInt a, TInt b => N.eqb a b
  | TFloat a, TFloat b => fkind_eqb a b
  | TPtr e1 a1, TPtr e2 a2 => ty_eqb e1 e2 && N.eqb a1 a2
  | TVec s1 n1 e1, TVec s2 n2 e2 => Bool.eqb s1 s2 && N.eqb n1 n2 && ty_eqb e1 e2
  | TArr n1 e1, TArr n2 e2 => N.eqb n1 n2 && ty_eqb e1 e2
  | TStruct p1 f1, TStruct p2 f2 =>
      Bool.eqb p1 p2 &&
      (fix go (a b : list ty) : bool :=
         match a, b with
         | [], [] => true
         | x :: a', y :: b' => ty_eqb x y && go a' b'
         | _, _ => false
         end) f1 f2
  | TNamed a, TNamed b => bytes_eqb a b
  | TFunc r1 p1 v1, TFunc r2 p2 v2 =>
      ty_eqb r1 r2 &&
      (fix go (a b : list ty) : bool :=
         match a, b with
         | [], [] => true
         | x :: a', y :: b' => ty_eqb x y && go a' b'
         | _, _ => false
         end) p1 p2 && Bool.eqb v1 v2
  | _, _ => false
  end.
