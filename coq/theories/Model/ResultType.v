(* Model of the result-type computations: the lazy Type() methods of package ir
   (ir/inst_*.go, ir/terminator.go) and the pre-computation done by the parser
   (asm/inst_*.go newXxxInst, asm/term.go), plus LLVM's rules stated independently.
   Instructions are grouped by the shape of their rule. *)
From Coq Require Import List Bool NArith.
From LLIR Require Import Lib.Bytes Model.Types.
Import ListNotations.

Inductive outcome (A : Type) := Ok (a : A) | Panic.
Arguments Ok {A}. Arguments Panic {A}.

Definition env := bytes -> option (list ty).

(* what an instruction presents to the type rule *)
Inductive shape :=
| SameAsFirst (x : ty)                 (* fneg, add..frem, shl..xor, freeze, insertvalue (X), select (ValueTrue) *)
| Convert (from to : ty)               (* trunc .. addrspacecast *)
| Explicit (t : ty)                    (* load (ElemType), va_arg (ArgType), landingpad (ResultType) *)
| Alloca (elem : ty) (addrspace : N)
| CmpXchg (new : ty)
| AtomicRMW (dst : ty)
| ICmp (x : ty) | FCmp (x : ty)
| Phi (declared : ty) (incoming : list ty)
| CallLike (written : ty) (callee : ty)      (* call, invoke, callbr: type written in the text, type of the callee operand *)
| ExtractElement (x : ty) | InsertElement (x : ty)
| ShuffleVector (x mask : ty)
| ExtractValue (x : ty) (indices : list N)
| TokenResult.                               (* catchpad, cleanuppad, catchswitch *)

Section Rules.
  Variable bodies : env.

  (* ir/inst_aggregate.go aggregateElemType (steps through pointers as well) *)
  Fixpoint agg_elem_ir (t : ty) (idx : list N) : outcome ty :=
    match idx with
    | [] => Ok t
    | i :: r =>
      match t with
      | TArr _ e => agg_elem_ir e r
      | TPtr e _ => agg_elem_ir e r
      | TStruct _ fs => match nth_error fs (N.to_nat i) with Some f => agg_elem_ir f r | None => Panic end
      | TNamed n => match bodies n with
                    | Some fs => match nth_error fs (N.to_nat i) with Some f => agg_elem_ir f r | None => Panic end
                    | None => Panic end
      | _ => Panic
      end
    end.
  (* asm/inst_aggregate.go aggregateElemType (no pointer case) *)
  Fixpoint agg_elem_asm (t : ty) (idx : list N) : outcome ty :=
    match idx with
    | [] => Ok t
    | i :: r =>
      match t with
      | TArr _ e => agg_elem_asm e r
      | TStruct _ fs => match nth_error fs (N.to_nat i) with Some f => agg_elem_asm f r | None => Panic end
      | TNamed n => match bodies n with
                    | Some fs => match nth_error fs (N.to_nat i) with Some f => agg_elem_asm f r | None => Panic end
                    | None => Panic end
      | _ => Panic
      end
    end.
  (* LLVM: arrays (index in range) and structs only *)
  Fixpoint agg_elem_llvm (t : ty) (idx : list N) : option ty :=
    match idx with
    | [] => Some t
    | i :: r =>
      match t with
      | TArr n e => if N.ltb i n then agg_elem_llvm e r else None
      | TStruct _ fs => match nth_error fs (N.to_nat i) with Some f => agg_elem_llvm f r | None => None end
      | TNamed n => match bodies n with
                    | Some fs => match nth_error fs (N.to_nat i) with Some f => agg_elem_llvm f r | None => None end
                    | None => None end
      | _ => None
      end
    end.

  Definition callee_ret (callee : ty) : outcome ty :=
    match callee with TPtr (TFunc r _ _) _ => Ok r | _ => Panic end.

  (* package ir: Type() *)
  Definition ir_type (s : shape) : outcome ty :=
    match s with
    | SameAsFirst x => Ok x
    | Convert _ to => Ok to
    | Explicit t => Ok t
    | Alloca e a => Ok (TPtr e a)
    | CmpXchg n => Ok (TStruct false [n; TInt 1])
    | AtomicRMW d => match d with TPtr e _ => Ok e | _ => Panic end
    | ICmp x => match x with
                | TInt _ | TPtr _ _ => Ok (TInt 1)
                | TVec _ n _ => Ok (TVec false n (TInt 1))
                | _ => Panic end
    | FCmp x => match x with
                | TFloat _ => Ok (TInt 1)
                | TVec _ n _ => Ok (TVec false n (TInt 1))
                | _ => Panic end
    | Phi _ inc => match inc with t :: _ => Ok t | [] => Panic end
    | CallLike _ callee => callee_ret callee
    | ExtractElement x => match x with TVec _ _ e => Ok e | _ => Panic end
    | InsertElement x => match x with TVec _ _ _ => Ok x | _ => Panic end
    | ShuffleVector x m => match x, m with TVec _ _ e, TVec _ n _ => Ok (TVec false n e) | _, _ => Panic end
    | ExtractValue x idx => agg_elem_ir x idx
    | TokenResult => Ok TToken
    end.

  (* package asm: newXxxInst / newXxxTerm, computed from the types written in the text *)
  Definition asm_type (s : shape) : outcome ty :=
    match s with
    | SameAsFirst x => Ok x
    | Convert _ to => Ok to
    | Explicit t => Ok t
    | Alloca e a => Ok (TPtr e a)
    | CmpXchg n => Ok (TStruct false [n; TInt 1])
    | AtomicRMW d => match d with TPtr e _ => Ok e | _ => Panic end
    | ICmp x => match x with
                | TInt _ | TPtr _ _ => Ok (TInt 1)
                | TVec _ n _ => Ok (TVec false n (TInt 1))
                | _ => Panic end
    | FCmp x => match x with
                | TFloat _ => Ok (TInt 1)
                | TVec _ n _ => Ok (TVec false n (TInt 1))
                | _ => Panic end
    | Phi declared _ => Ok declared
    | CallLike written _ => match written with TFunc r _ _ => Ok r | _ => Ok written end
    | ExtractElement x => match x with TVec _ _ e => Ok e | _ => Panic end
    | InsertElement x => match x with TVec _ _ _ => Ok x | _ => Panic end
    | ShuffleVector x m => match x, m with TVec _ _ e, TVec _ n _ => Ok (TVec false n e) | _, _ => Panic end
    | ExtractValue x idx => agg_elem_asm x idx
    | TokenResult => Ok TToken
    end.

  (* LLVM's typing rules *)
  Definition llvm_type (s : shape) : option ty :=
    match s with
    | SameAsFirst x => Some x
    | Convert _ to => Some to
    | Explicit t => Some t
    | Alloca e a => Some (TPtr e a)
    | CmpXchg n => Some (TStruct false [n; TInt 1])
    | AtomicRMW d => match d with TPtr e _ => Some e | _ => None end
    | ICmp x => match x with
                | TInt _ | TPtr _ _ => Some (TInt 1)
                | TVec sc n (TInt _) | TVec sc n (TPtr _ _) => Some (TVec sc n (TInt 1))
                | _ => None end
    | FCmp x => match x with
                | TFloat _ => Some (TInt 1)
                | TVec sc n (TFloat _) => Some (TVec sc n (TInt 1))
                | _ => None end
    | Phi declared inc => if forallb (ty_eqb declared) inc && negb (match inc with [] => true | _ => false end)
                          then Some declared else None
    | CallLike written callee =>
        match callee with
        | TPtr (TFunc r ps v) _ =>
            match written with
            | TFunc r' ps' v' => if ty_eqb (TFunc r ps v) (TFunc r' ps' v') then Some r else None
            | _ => if ty_eqb written r then Some r else None
            end
        | _ => None
        end
    | ExtractElement x => match x with TVec _ _ e => Some e | _ => None end
    | InsertElement x => match x with TVec _ _ _ => Some x | _ => None end
    | ShuffleVector x m => match x, m with
                           | TVec sc _ e, TVec scm n (TInt 32) => if Bool.eqb sc scm then Some (TVec sc n e) else None
                           | _, _ => None end
    | ExtractValue x idx => match idx with [] => None | _ => agg_elem_llvm x idx end
    | TokenResult => Some TToken
    end.
End Rules.

(* the class of the known finding: a scalable vector reaches a rule that rebuilds the vector type *)
Definition scalable_rebuilt (s : shape) : bool :=
  match s with
  | ICmp (TVec true _ _) | FCmp (TVec true _ _) => true
  | ShuffleVector (TVec true _ _) _ | ShuffleVector _ (TVec true _ _) => true
  | _ => false
  end.
