(* Model of ir/constant/const_int.go: NewIntFromString and the method Ident of constant.Int.
   The decimal-versus-hexadecimal choice of Ident is a parameter [choose_hex]; the
   executable instance lives in Model/IntEntropy.v. *)
From Coq Require Import List Bool NArith ZArith.
From Coq Require Import Strings.Byte.
From LLIR Require Import Lib.Bytes Lib.Radix.
Import ListNotations.
Local Open Scope Z_scope.

Inductive outcome (A : Type) := Ok (a : A) | Err | Panic.
Arguments Ok {A}. Arguments Err {A}. Arguments Panic {A}.

Definition s_true : bytes := [x74; x72; x75; x65].
Definition s_false : bytes := [x66; x61; x6c; x73; x65].
Definition p_u0x : bytes := [x75; x30; x78].
Definition p_s0x : bytes := [x73; x30; x78].

Fixpoint strip_prefix (p s : bytes) : option bytes :=
  match p, s with
  | [], _ => Some s
  | a :: p', b :: s' => if byte_eqb a b then strip_prefix p' s' else None
  | _ :: _, [] => None
  end.

(* big.Int.SetString(s, 10): optional sign, then digits *)
Definition parse_signed_dec (s : bytes) : option Z :=
  match s with
  | b :: r =>
    if N.eqb (bN b) 45 then option_map (fun n => - Z.of_N n) (parse_dec_N r)
    else if N.eqb (bN b) 43 then option_map Z.of_N (parse_dec_N r)
    else option_map Z.of_N (parse_dec_N s)
  | [] => None
  end.

(* big.Int.SetString(s, 16): optional sign, then hexadecimal digits (no prefix, no underscores) *)
Definition parse_signed_hex (s : bytes) : option Z :=
  match s with
  | b :: r =>
    if N.eqb (bN b) 45 then option_map (fun n => - Z.of_N n) (parse_hex_N r)
    else if N.eqb (bN b) 43 then option_map Z.of_N (parse_hex_N r)
    else option_map Z.of_N (parse_hex_N s)
  | [] => None
  end.

Definition parse_int (w : N) (s : bytes) : outcome Z :=
  if bytes_eqb s s_true then (if N.eqb w 1 then Ok 1 else Err)
  else if bytes_eqb s s_false then (if N.eqb w 1 then Ok 0 else Err)
  else match strip_prefix p_u0x s with
  | Some h => match parse_signed_hex h with Some x => Ok x | None => Err end
  | None =>
    match strip_prefix p_s0x s with
    | Some h =>
      match parse_signed_hex h with
      | Some x => (* x.Bit(BitSize-1) == 1  ->  x - 2^BitSize; Bit reads a negative x in two's complement *)
        if Z.testbit x (Z.of_N (w - 1)) then Ok (x - 2 ^ Z.of_N w) else Ok x
      | None => Err
      end
    | None => match parse_signed_dec s with Some z => Ok z | None => Err end
    end
  end.

(* x.Int64(): the low 64 bits, read as a signed integer *)
Definition int64_of (x : Z) : Z :=
  let m := x mod 2 ^ 64 in if m <? 2 ^ 63 then m else m - 2 ^ 64.

Definition print_Z (x : Z) : bytes :=
  if x <? 0 then x2d :: print_dec_N (Z.to_N (- x)) else print_dec_N (Z.to_N x).

Section Ident.
  Variable choose_hex : Z -> bool.
  Definition ident (w : N) (x : Z) : outcome bytes :=
    if N.eqb w 1 then
      (if int64_of x =? 0 then Ok s_false else if int64_of x =? 1 then Ok s_true else Panic)
    else if (4096 <=? x) && choose_hex x then Ok (p_u0x ++ print_hex_N (Z.to_N x))
    else Ok (print_Z x).
End Ident.
