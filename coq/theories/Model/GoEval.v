(* GoEval.v: the meaning of the printer terms of Gen/Printers.v.
   A printer body is run against an environment of values; it appends bytes to a
   buffer.  Objects are records of fields; the result of a niladic method that is
   not itself a translated printer is stored under the method name followed by ().
   Calls of translated printers (LLString, String, headerString, ...) run the
   translated body, so nested printing is the code's own, down to the leaves. *)
From Coq Require Import List String Ascii ZArith Bool.
From Coq Require Import Strings.Byte.
From LLIR Require Import Lib.Bytes Lib.Radix Model.Enc Model.Natsort Gen.Enums Gen.Printers.
Import ListNotations.
Local Open Scope string_scope.

Inductive val :=
| VStr (b : bytes)
| VBool (b : bool)
| VInt (z : Z)
| VEnum (ty : string) (z : Z)
| VNil
| VList (l : list val)
| VObj (ty : string) (fs : list (string * val))
| VTuple (l : list val).

Definition env := list (string * val).

Fixpoint lookup (x : string) (e : env) : option val :=
  match e with [] => None | (y, v) :: r => if String.eqb x y then Some v else lookup x r end.
Fixpoint update (x : string) (v : val) (e : env) : option env :=
  match e with
  | [] => None
  | (y, w) :: r => if String.eqb x y then Some ((y, v) :: r) else option_map (cons (y, w)) (update x v r)
  end.

Definition bytes_of_string (s : string) : bytes := list_byte_of_string s.

(* ---- enums: the generated stringer tables ---- *)
(* the part of a qualified name after the dot *)
Fixpoint after_dot (s : string) : string :=
  match s with
  | EmptyString => EmptyString
  | String c r => if Ascii.eqb c "." then r else after_dot r
  end.
Definition unqualified (s : string) : string := match after_dot s with EmptyString => s | r => r end.
Definition enum_table (ty : string) : option enum_tables :=
  find (fun t => bytes_eqb (e_name t) (bytes_of_string (unqualified ty))) all_enums.
Definition print_Z (z : Z) : bytes :=
  match z with Zneg p => x2d :: print_dec_N (Npos p) | _ => print_dec_N (Z.to_N z) end.
(* String() of an enum value: the keyword, or Type(n) *)
Definition enum_string (ty : string) (z : Z) : bytes :=
  match enum_table ty with
  | Some t => match find (fun p => Z.eqb (fst p) z) (e_string t) with
              | Some p => snd p
              | None => (bytes_of_string (unqualified ty) ++ [x28] ++ print_Z z ++ [x29])%list
              end
  | None => (bytes_of_string (unqualified ty) ++ [x28] ++ print_Z z ++ [x29])%list
  end.

Inductive res (A : Type) := Ok (a : A) | Fail (why : string).
Arguments Ok {A}. Arguments Fail {A}.
Notation "x |> f" := (f x) (at level 61, left associativity, only parsing).
Notation "x <- e ;; k" := (match e with Ok x => k | Fail w => Fail w end) (at level 60, e at next level, right associativity).
Notation "' p <- e ;; k" := (match e with Ok p => k | Fail w => Fail w end) (at level 60, p pattern, e at next level, right associativity).

Definition find_printer (ty m : string) : option printer :=
  find (fun p => String.eqb (p_type p) ty && String.eqb (p_method p) m) printers.

(* control: keep running, a return of the buffer (or of nothing), a return of a value *)
Inductive flow := Run | Stop | Ret (v : val) | Cont.   (* Cont: a continue on its way to the enclosing loop *)
Definition is_cont (f : flow) : bool := match f with Cont => true | _ => false end.
Definition stopped (f : flow) : bool := match f with Run => false | _ => true end.

Definition val_eqb (a b : val) : res bool :=
  match a, b with
  | VStr x, VStr y => Ok (bytes_eqb x y)
  | VBool x, VBool y => Ok (Bool.eqb x y)
  | VInt x, VInt y | VEnum _ x, VEnum _ y | VInt x, VEnum _ y | VEnum _ x, VInt y => Ok (Z.eqb x y)
  | VNil, VNil => Ok true
  | VNil, VList l | VList l, VNil => Ok (match l with [] => true | _ => false end)
  | VNil, _ | _, VNil => Ok false
  | _, _ => Fail "comparison of unsupported values"
  end.

Definition truncate {A} (keep : nat) (l : list A) : list A := skipn (List.length l - keep) l.

(* ---- fmt verbs ---- *)
Definition is_verb (v : string) (c : string) : bool := String.eqb v ("%" ++ c).

(* a Go byte from the integer that stands for it *)
Definition byte_of_Z (z : Z) : option byte := if (z <? 0)%Z then None else Byte.of_N (Z.to_N z).
(* a function value: the name of the (lifted) body it runs *)
Definition vfunc (name : string) : val := VObj "func" [(name, VNil)].

(* the variable that holds the bound on the rounds of a while loop (SWhile) *)
Definition loop_fuel_var : string := "$fuel".

Section Run.
  (* which dynamic types satisfy a type assertion x.(T) *)
  Variable implements : string -> string -> bool.
  (* a call of a translated printer: type, method, receiver *)
  Variable call : string -> string -> val -> res val.

  (* String() of a value, as fmt would obtain it for %s and %v *)
  Definition to_text (v : val) : res bytes :=
    match v with
    | VStr b => Ok b
    | VEnum ty z =>
      match find_printer ty "String" with
      | Some _ => r <- call ty "String" v ;; match r with VStr b => Ok b | _ => Fail "String did not return a string" end
      | None => Ok (enum_string ty z)
      end
    | VInt z => Ok (print_Z z)
    | VBool true => Ok (bytes_of_string "true")
    | VBool false => Ok (bytes_of_string "false")
    | VObj ty fs =>
      match lookup "String()" fs with
      | Some (VStr b) => Ok b
      | _ => r <- call ty "String" v ;; match r with VStr b => Ok b | _ => Fail "String did not return a string" end
      end
    | _ => Fail "value without a text form"
    end.

  Definition format1 (verb : string) (v : val) : res bytes :=
    if is_verb verb "s" || is_verb verb "v" then to_text v
    else if is_verb verb "d" then match v with VInt z | VEnum _ z => Ok (print_Z z) | _ => Fail "%d of a non-integer" end
    else if is_verb verb "t" then match v with VBool true => Ok (bytes_of_string "true") | VBool false => Ok (bytes_of_string "false") | _ => Fail "%t of a non-boolean" end
    else Fail ("verb " ++ verb).

  (* fmt.Sprintf over evaluated arguments *)
  Fixpoint sprintf (f : string) (args : list val) : res bytes :=
    match f with
    | EmptyString => Ok []
    | String c r =>
      if Ascii.eqb c "%" then
        match r with
        | String d r' =>
          if Ascii.eqb d "%" then t <- sprintf r' args ;; Ok (x25 :: t)
          else match args with
               | a :: more => h <- format1 (String "%" (String d EmptyString)) a ;; t <- sprintf r' more ;; Ok (h ++ t)%list
               | [] => Fail "too few arguments"
               end
        | EmptyString => Ok [x25]
        end
      else t <- sprintf r args ;; Ok (byte_of_ascii c :: t)
    end.

  Fixpoint eval (written : Z) (en : env) (e : gexpr) {struct e} : res val :=
    let eval := eval written in
    match e with
    | EWritten => Ok (VInt written)
    | EComposite ty fields =>
      let fix flds (l : list (string * gexpr)) : res (list (string * val)) :=
        match l with [] => Ok [] | (f, a) :: r => v <- eval en a ;; vs <- flds r ;; Ok ((f, v) :: vs) end in
      fs <- flds fields ;; Ok (VObj ty fs)
    | ETuple es =>
      let fix all (l : list gexpr) : res (list val) :=
        match l with [] => Ok [] | a :: r => v <- eval en a ;; vs <- all r ;; Ok (v :: vs) end in
      vs <- all es ;; Ok (VTuple vs)
    | ESliceFrom e' lo =>
      v <- eval en e' ;; k <- eval en lo ;;
      match v, k with
      | VList l, VInt z => if ((z <? 0) || (Z.of_nat (List.length l) <? z))%Z then Fail "panic" else Ok (VList (skipn (Z.to_nat z) l))
      | VStr b, VInt z => if ((z <? 0) || (Z.of_nat (List.length b) <? z))%Z then Fail "panic" else Ok (VStr (skipn (Z.to_nat z) b))
      | _, _ => Fail "slice"
      end
    | ESlice e' lo hi =>
      (* e[lo:hi]: Go panics unless 0 <= lo <= hi <= len(e) *)
      v <- eval en e' ;; k <- eval en lo ;; h <- eval en hi ;;
      match v, k, h with
      | VList l, VInt z, VInt y =>
        if ((z <? 0) || (y <? z) || (Z.of_nat (List.length l) <? y))%Z then Fail "panic"
        else Ok (VList (firstn (Z.to_nat (y - z)) (skipn (Z.to_nat z) l)))
      | VStr b, VInt z, VInt y =>
        if ((z <? 0) || (y <? z) || (Z.of_nat (List.length b) <? y))%Z then Fail "panic"
        else Ok (VStr (firstn (Z.to_nat (y - z)) (skipn (Z.to_nat z) b)))
      | _, _, _ => Fail "slice"
      end
    | EId x => match lookup x en with Some v => Ok v | None => Fail ("unbound " ++ x) end
    | ESel e' f =>
      v <- eval en e' ;;
      match v with
      | VObj _ fs => match lookup f fs with Some w => Ok w | None => Fail ("no field " ++ f) end
      | _ => Fail ("selection " ++ f ++ " on a non-object")
      end
    | EConst ty z => Ok (if String.eqb ty "" then VInt z else VEnum ty z)
    | EStr s => Ok (VStr (bytes_of_string s))
    | EBool b => Ok (VBool b)
    | ENil => Ok VNil
    | ENot e' => v <- eval en e' ;; match v with VBool b => Ok (VBool (negb b)) | VObj "app" _ => Ok v | _ => Fail "! on a non-boolean" end
    | EBin op a b =>
      x <- eval en a ;;
      if String.eqb op "&&" then
        match x with VBool false => Ok (VBool false) | VBool true => eval en b | _ => Fail "&& on a non-boolean" end
      else if String.eqb op "||" then
        match x with VBool true => Ok (VBool true) | VBool false => eval en b | _ => Fail "|| on a non-boolean" end
      else
      y <- eval en b ;;
      if String.eqb op "==" then r <- val_eqb x y ;; Ok (VBool r)
      else if String.eqb op "!=" then r <- val_eqb x y ;; Ok (VBool (negb r))
      else if String.eqb op "+" then
        match x, y with
        | VStr a, VStr b => Ok (VStr (a ++ b)%list)
        | VInt p, VInt q => Ok (VInt (p + q)%Z)
        | _, _ => Fail "+ on unsupported values"
        end
      else if String.eqb op "-" then
        match x, y with
        | VInt p, VInt q => Ok (VInt (p - q)%Z)
        | _, _ => Fail "- on unsupported values"
        end
      else if String.eqb op "<<" then
        match x, y with
        | VEnum t p, VInt q => Ok (VEnum t (Z.shiftl p q))
        | VInt p, VInt q => Ok (VInt (Z.shiftl p q))
        | _, _ => Fail "<< on unsupported values"
        end
      else if String.eqb op ">>" then
        (* on integers that stand for unsigned values (bytes); a negative count panics *)
        match x, y with
        | VInt p, VInt q => if (q <? 0)%Z then Fail "panic" else Ok (VInt (Z.shiftr p q))
        | _, _ => Fail ">> on unsupported values"
        end
      else if String.eqb op "&" then
        match x, y with
        | VEnum t p, VEnum _ q | VEnum t p, VInt q | VInt p, VEnum t q => Ok (VEnum t (Z.land p q))
        | VInt p, VInt q => Ok (VInt (Z.land p q))
        | _, _ => Fail "& on non-integers"
        end
      else if String.eqb op "|" then
        match x, y with
        | VEnum t p, VEnum _ q | VEnum t p, VInt q | VInt p, VEnum t q => Ok (VEnum t (Z.lor p q))
        | VInt p, VInt q => Ok (VInt (Z.lor p q))
        | _, _ => Fail "| on non-integers"
        end
      else match x, y with
           | VInt p, VInt q | VEnum _ p, VEnum _ q | VEnum _ p, VInt q | VInt p, VEnum _ q =>
             if String.eqb op ">" then Ok (VBool (q <? p)%Z) else if String.eqb op "<" then Ok (VBool (p <? q)%Z)
             else if String.eqb op ">=" then Ok (VBool (q <=? p)%Z) else if String.eqb op "<=" then Ok (VBool (p <=? q)%Z)
             else Fail ("operator " ++ op)
           | VStr p, VStr q =>
             (* Go orders strings bytewise, lexicographically *)
             if String.eqb op ">" then Ok (VBool (bytes_ltb q p)) else if String.eqb op "<" then Ok (VBool (bytes_ltb p q))
             else if String.eqb op ">=" then Ok (VBool (negb (bytes_ltb p q))) else if String.eqb op "<=" then Ok (VBool (negb (bytes_ltb q p)))
             else Fail ("operator " ++ op)
           | _, _ => Fail ("operator " ++ op ++ " on non-integers")
           end
    | EAssert e' ty =>
      v <- eval en e' ;;
      (* an assertion to a concrete pointer type holds exactly for objects of that type; an interface type is decided by [implements] *)
      let target := match ty with String "*" r => r | _ => ty end in
      match v with
      | VObj t _ => Ok (VTuple [v; VBool (String.eqb target t || implements ty t)])
      | _ => Ok (VTuple [v; VBool false])
      end
    | EIndex e' i =>
      v <- eval en e' ;; k <- eval en i ;;
      match v, k with
      | VList l, VInt z =>
        if (z <? 0)%Z then Fail "panic"        (* Go: index out of range *)
        else match nth_error l (Z.to_nat z) with Some w => Ok w | None => Fail "panic" end
      | VStr b, VInt z =>
        (* s[i] of a string: the byte, as an integer 0..255 *)
        if (z <? 0)%Z then Fail "panic"
        else match nth_error b (Z.to_nat z) with Some c => Ok (VInt (Z.of_N (bN c))) | None => Fail "panic" end
      | VNil, VInt _ => Fail "panic"             (* indexing a nil slice *)
      | VList l, VStr key =>
        (* a Go map: a list of key/value pairs *)
        match find (fun p => match p with VTuple [VStr k'; _] => bytes_eqb k' key | _ => false end) l with
        | Some (VTuple [_; w]) => Ok w
        | _ => Ok VNil
        end
      | _, _ => Fail "index"
      end
    | ECall f args =>
      let fix evals (l : list gexpr) : res (list val) :=
        match l with [] => Ok [] | a :: r => v <- eval en a ;; vs <- evals r ;; Ok (v :: vs) end in
      vs <- evals args ;;
      match f with
      | EId fn =>
        if String.eqb fn "len" then
          match vs with
          | [VStr b] => Ok (VInt (Z.of_nat (List.length b)))
          | [VList l] => Ok (VInt (Z.of_nat (List.length l)))
          | [VNil] => Ok (VInt 0)
          | [VObj "app" _] => Ok (VInt 1)          (* an uninterpreted collection: one generic element *)
          | _ => Fail "len"
          end
        else if String.eqb fn "make" then
          match vs with
          | [VInt n] | [VInt n; _] => Ok (VList (repeat VNil (Z.to_nat n)))
          | [VStr t; VInt n] =>
            (* make([]byte, n), the type argument as written: n zero bytes *)
            if bytes_eqb t (bytes_of_string "[]byte")
            then if (n <? 0)%Z then Fail "panic" else Ok (VStr (repeat x00 (Z.to_nat n)))
            else Fail "make"
          | [VStr t] =>
            (* make(map[K]V), the type argument as written: the empty map (a list of key/value pairs) *)
            if bytes_eqb (firstn 4 t) (bytes_of_string "map[") then Ok (VList []) else Fail "make"
          | _ => Fail "make"
          end
        else if String.eqb fn "append" then
          match vs with
          | VList l :: more => Ok (VList (l ++ more))
          | VNil :: more => Ok (VList more)
          | _ => Fail "append"
          end
        else if String.eqb fn "uint" || String.eqb fn "int" || String.eqb fn "uint64" || String.eqb fn "int64" then
          match vs with [VInt z] | [VEnum _ z] => Ok (VInt z) | _ => Fail "conversion" end
        else if String.eqb fn "quote" then match vs with [VStr b] => Ok (VStr (quote b)) | _ => Fail "quote" end
        else match vs with [v] => call "" fn v | _ => call "" fn (VTuple vs) end
      | ESel (EId pk) fn =>
        if String.eqb pk "enc" then
          match vs with
          | [VStr b] =>
            if String.eqb fn "LabelName" then Ok (VStr (label_name b))
            else if String.eqb fn "ComdatName" then Ok (VStr (comdat_name b))
            else if String.eqb fn "GlobalName" then Ok (VStr (global_name b))
            else if String.eqb fn "LocalName" then Ok (VStr (local_name b))
            else if String.eqb fn "TypeName" then Ok (VStr (type_name b))
            else if String.eqb fn "MetadataName" then match metadata_name b with Some r => Ok (VStr r) | None => Fail "enc.MetadataName panics" end
            else if String.eqb fn "Quote" then Ok (VStr (quote b))
            else Fail ("enc." ++ fn)
          | [VInt z] =>
            if String.eqb fn "LabelID" then Ok (VStr (label_id (Z.to_N z)))
            else if String.eqb fn "AttrGroupID" then Ok (VStr (x23 :: print_Z z))
          else if String.eqb fn "MetadataID" then Ok (VStr (x21 :: print_Z z))
          else if String.eqb fn "GlobalID" then Ok (VStr (global_id (Z.to_N z)))
          else if String.eqb fn "LocalID" then Ok (VStr (local_id (Z.to_N z)))
            else Fail ("enc." ++ fn)
          | _ => Fail ("enc." ++ fn)
          end
        else if String.eqb pk "strings" && String.eqb fn "Join" then
          match vs with
          | [VList l; VStr sep] =>
            (fix join (l : list val) : res val :=
               match l with
               | [] => Ok (VStr [])
               | [VStr a] => Ok (VStr a)
               | VStr a :: r => t <- join r ;; match t with VStr b => Ok (VStr (a ++ sep ++ b)%list) | _ => Fail "join" end
               | _ => Fail "join of non-strings"
               end) l
          | [VNil; VStr _] => Ok (VStr [])
          | _ => Fail "strings.Join"
          end
        else if String.eqb pk "types" && String.eqb fn "NewVector" then
          match vs with
          | [n; e] => Ok (VObj "types.VectorType" [("TypeName", VStr []); ("Scalable", VBool false); ("Len", n); ("ElemType", e)])
          | _ => Fail "types.NewVector"
          end
        else if String.eqb pk "types" && String.eqb fn "NewPointer" then
          match vs with
          | [e] => Ok (VObj "types.PointerType" [("TypeName", VStr []); ("ElemType", e); ("AddrSpace", VEnum "types.AddrSpace" 0)])
          | _ => Fail "types.NewPointer"
          end
        else if String.eqb pk "types" && String.eqb fn "NewArray" then
          match vs with
          | [n; e] => Ok (VObj "types.ArrayType" [("TypeName", VStr []); ("Len", n); ("ElemType", e)])
          | _ => Fail "types.NewArray"
          end
        else if String.eqb pk "types" && String.eqb fn "NewStruct" then
          Ok (VObj "types.StructType" [("TypeName", VStr []); ("Opaque", VBool false); ("Packed", VBool false);
                                       ("Fields", VList (match vs with [VList l] => l | _ => vs end))])
        else if String.eqb pk "enum" then
          (* a conversion enum.T(x) *)
          match vs with [VInt z] | [VEnum _ z] => Ok (VEnum ("enum." ++ fn) z) | _ => Fail ("enum." ++ fn) end
        else if String.eqb pk "errors" then
          (* errors.WithStack(err), errors.Errorf(...): some non-nil error *)
          match vs with [VObj _ _ as e] => Ok e | _ => Ok (VObj "error" []) end
        else if String.eqb pk "natsort" && String.eqb fn "Strings" then
          match vs with
          | [VList l] =>
            (fix strs (l : list val) : res (list bytes) :=
               match l with
               | [] => Ok []
               | VStr a :: r => t <- strs r ;; Ok (a :: t)
               | _ => Fail "natsort.Strings of non-strings"
               end) l |> fun r => match r with Ok bs => Ok (VList (map VStr (sort_strings bs))) | Fail w => Fail w end
          | [VNil] => Ok VNil
          | _ => Fail "natsort.Strings"
          end
        else if String.eqb pk "strings" && String.eqb fn "HasPrefix" then
          match vs with
          | [VStr a; VStr pre] => Ok (VBool (bytes_eqb (firstn (List.length pre) a) pre))
          | _ => Fail "strings.HasPrefix"
          end
        else if String.eqb pk "fmt" && String.eqb fn "Sprintf" then
          match args, vs with
          | EStr f :: _, _ :: more => b <- sprintf f more ;; Ok (VStr b)
          | _, _ => Fail "fmt.Sprintf with a computed format"
          end
        else
          (* a method on a variable: a stored niladic result, String() of an enum, or a translated printer *)
          match lookup pk en, vs with
          | Some (VObj ty fs as r), [] =>
            match lookup (fn ++ "()") fs with Some w => Ok w | None => call ty fn r end
          | Some (VEnum ty z), [] => if String.eqb fn "String" then Ok (VStr (enum_string ty z)) else Fail ("method " ++ fn ++ " on an enum")
          | Some (VObj ty fs as r), _ =>
            if String.eqb fn "irType" then match vs with [u] => Ok (VTuple [u; VNil]) | _ => Fail "irType" end
            else call ty fn (VTuple (r :: vs))
          | None, _ => call "" (pk ++ "." ++ fn) (VTuple vs)      (* a function of another package *)
          | _, _ => Fail ("method " ++ fn ++ " on " ++ pk)
          end
      | ESel recv m =>
        r <- eval en recv ;;
        match r, vs with
        | VObj ty fs, [] =>
          match lookup (m ++ "()") fs with Some w => Ok w | None => call ty m r end
        | VObj ty fs, [u] =>
          if String.eqb m "irType" then
            (* asm/type.go: the IR type of an AST type; AST types are represented by the IR types they denote *)
            Ok (VTuple [u; VNil])
          else if String.eqb m "Equal" then
            (* the translated Equal method of the receiver's kind when there is one; otherwise
               types are equal exactly when they are written the same (C16, equal_go_spec) *)
            match find_printer ty "Equal" with
            | Some _ => call ty "Equal" (VTuple [r; u])
            | None => a <- to_text r ;; b <- to_text u ;; Ok (VBool (bytes_eqb a b))
            end
          else call ty m (VTuple (r :: vs))
        | VObj ty fs, _ => call ty m (VTuple (r :: vs))
        | VEnum ty z, [] => if String.eqb m "String" then Ok (VStr (enum_string ty z)) else Fail ("method " ++ m ++ " on an enum")
        | _, _ => Fail ("method " ++ m)
        end
      | _ => Fail "call of a computed function"
      end
    | EOther s => Fail ("untranslated expression " ++ s)
    | EFunc name => Ok (vfunc name)
    | ECallVal f args =>
      (* a call of a function value: the body it names, through [call] like any other call *)
      fv <- eval en f ;;
      let fix evals (l : list gexpr) : res (list val) :=
        match l with [] => Ok [] | a :: r => v <- eval en a ;; vs <- evals r ;; Ok (v :: vs) end in
      vs <- evals args ;;
      match fv with
      | VObj "func" [(name, VNil)] => match vs with [v] => call "" name v | _ => call "" name (VTuple vs) end
      | _ => Fail "call of a non-function"
      end
    end.

  (* bind the names of a := or = ; a tuple on the right is destructured *)
  Fixpoint bind_all (define : bool) (names : list string) (vs : list val) (en : env) : res env :=
    match names, vs with
    | [], [] => Ok en
    | n :: ns, v :: r =>
      if String.eqb n "_" then bind_all define ns r en
      else if define then bind_all define ns r ((n, v) :: en)
      else match update n v en with Some en' => bind_all define ns r en' | None => Fail ("assignment to unbound " ++ n) end
    | _, _ => Fail "assignment arity"
    end.
  Definition bind (define : bool) (names : list string) (v : val) (en : env) : res env :=
    match names, v with
    | [n], _ => bind_all define [n] [v] en
    | _, VTuple vs => bind_all define names vs en
    | [a; b], VObj "app" _ =>
      (* x, err := f(...) or x, ok := old.Part() with f uninterpreted: the path without error on which the part is present *)
      bind_all define [a; b] [v; if String.eqb b "err" then VNil else VBool true] en
    | _, _ => Fail "assignment arity"
    end.

  Fixpoint set_path (path : list string) (v : val) (o : val) : res val :=
    match path, o with
    | [], _ => Ok v
    | f :: r, VObj ty fs =>
      inner <- set_path r v (match lookup f fs with Some w => w | None => VNil end) ;;
      Ok (VObj ty (match update f inner fs with Some fs' => fs' | None => (f, inner) :: fs end))
    | _, _ => Fail "field assignment into a non-object"
    end.

  (* the variable and the field path an expression x.f.g names *)
  Fixpoint place_of (e : gexpr) : option (string * list string) :=
    match e with
    | EId x => Some (x, [])
    | ESel e' f => match place_of e' with Some (x, p) => Some (x, (p ++ [f])%list) | None => None end
    | _ => None
    end.
  (* o.path[i] = v for a slice reached through fields; Go panics outside the slice *)
  Fixpoint set_elem (path : list string) (i : nat) (v : val) (o : val) : res val :=
    match path, o with
    | [], VList l => if Nat.ltb i (List.length l) then Ok (VList (firstn i l ++ v :: skipn (S i) l)%list) else Fail "panic"
    | f :: r, VObj ty fs =>
      match lookup f fs with
      | Some w =>
        inner <- set_elem r i v w ;;
        match update f inner fs with Some fs' => Ok (VObj ty fs') | None => Fail "element assignment" end
      | None => Fail ("no field " ++ f)
      end
    | _, _ => Fail "element assignment into a non-slice"
    end.

  Definition dyn_type (v : val) : string :=
    match v with VObj t _ | VEnum t _ => t | _ => "" end.

  (* state: environment, buffer, and whether a return was executed *)
  (* state: environment, buffer, and how control continues *)
  Definition st := (env * bytes * flow)%type.

  (* for k, v := range l: the body runs in a scope of its own, once per element *)
  Definition loop_env (k v : string) (i : Z) (x : val) (en : env) : env :=
    ((if String.eqb v "_" then [] else [(v, x)]) ++ (if String.eqb k "_" then [] else [(k, VInt i)]) ++ en)%list.
  Fixpoint for_loop (body : env -> bytes -> res st) (k v : string) (l : list val) (i : Z) (en : env) (buf : bytes) : res st :=
    match l with
    | [] => Ok (en, buf, Run)
    | x :: r =>
      '(en1, buf1, stop) <- body (loop_env k v i x en) buf ;;
      let en2 := truncate (List.length en) en1 in
      if stopped stop && negb (is_cont stop) then Ok (en2, buf1, stop) else for_loop body k v r (i + 1)%Z en2 buf1
    end.

  (* for k, v := range x.path over a slice of pointers: as for_loop, and after each round the element as the body left it
     (the value of v in the scope of the round) is stored into slot i of the slice x.path of the current environment --
     whichever way the round ended.  Objects are values here; the store is what makes a change of the object visible
     through the slice, as the shared pointer does in Go.  The slice ranged over is the one evaluated before the loop. *)
  Fixpoint for_loop_ptr (body : env -> bytes -> res st) (k v x : string) (path : list string) (l : list val) (i : Z) (en : env) (buf : bytes) : res st :=
    match l with
    | [] => Ok (en, buf, Run)
    | a :: r =>
      '(en1, buf1, stop) <- body (loop_env k v i a en) buf ;;
      let a' := match lookup v (firstn (List.length en1 - List.length en) en1) with Some w => w | None => a end in
      let en2 := truncate (List.length en) en1 in
      match lookup x en2 with
      | Some o =>
        o' <- set_elem path (Z.to_nat i) a' o ;;
        match update x o' en2 with
        | Some en3 => if stopped stop && negb (is_cont stop) then Ok (en3, buf1, stop) else for_loop_ptr body k v x path r (i + 1)%Z en3 buf1
        | None => Fail "element assignment"
        end
      | None => Fail ("unbound " ++ x)
      end
    end.

  (* for cond { body } and for ; cond; post { body }: the condition, the body in its scope, the post statement;
     at most n rounds, the round that finds the condition false included *)
  Fixpoint while_loop (cond : env -> bytes -> res val) (body post : env -> bytes -> res st) (n : nat) (en : env) (buf : bytes) : res st :=
    match n with
    | O => Fail "out of fuel"
    | S n' =>
      c <- cond en buf ;;
      match c with
      | VBool false => Ok (en, buf, Run)
      | VBool true =>
        '(en1, buf1, stop) <- body en buf ;;
        if stopped stop && negb (is_cont stop) then Ok (en1, buf1, stop)
        else '(en2, buf2, _) <- post en1 buf1 ;; while_loop cond body post n' en2 buf2
      | _ => Fail "condition is not a boolean"
      end
    end.

  Fixpoint exec1 (s : gstmt) (en : env) (buf : bytes) {struct s} : res st :=
    let fix block (ss : list gstmt) (en : env) (buf : bytes) : res st :=
      match ss with
      | [] => Ok (en, buf, Run)
      | s :: r => '(en1, buf1, stop) <- exec1 s en buf ;; if stopped stop then Ok (en1, buf1, stop) else block r en1 buf1
      end in
    let scoped (ss : list gstmt) (en : env) (buf : bytes) : res st :=
      '(en1, buf1, stop) <- block ss en buf ;; Ok (truncate (List.length en) en1, buf1, stop) in
    match s with
    | SLit t => Ok (en, (buf ++ bytes_of_string t)%list, Run)
    | SArg verb e => v <- eval (Z.of_nat (List.length buf)) en e ;; b <- format1 verb v ;; Ok (en, (buf ++ b)%list, Run)
    | SLet define names e => v <- eval (Z.of_nat (List.length buf)) en e ;; en1 <- bind define names v en ;; Ok (en1, buf, Run)
    | SVar x => Ok ((x, VNil) :: en, buf, Run)
    | SStop => Ok (en, buf, Stop)
    | SContinue => Ok (en, buf, Cont)
    | SPanic => Fail "panic"
    | SUnknown u => Fail ("untranslated statement " ++ u)
    | SIf init cond th el =>
      en0 <- match init with
             | None => Ok en
             | Some (names, e) => v <- eval (Z.of_nat (List.length buf)) en e ;; bind true names v en
             end ;;
      c <- eval (Z.of_nat (List.length buf)) en0 cond ;;
      match c with
      | VBool true => '(en1, buf1, stop) <- scoped th en0 buf ;; Ok (truncate (List.length en) en1, buf1, stop)
      | VBool false => '(en1, buf1, stop) <- scoped el en0 buf ;; Ok (truncate (List.length en) en1, buf1, stop)
      | VObj "app" _ =>
        (* an uninterpreted condition: in the translated code these guard an error return (type mismatch,
           failed lookup); the symbolic run follows the path on which they do not fire *)
        '(en1, buf1, stop) <- scoped el en0 buf ;; Ok (truncate (List.length en) en1, buf1, stop)
      | _ => Fail "condition is not a boolean"
      end
    | SRet e => v <- eval (Z.of_nat (List.length buf)) en e ;; Ok (en, buf, Ret v)
    | SExpr e =>
      v <- eval (Z.of_nat (List.length buf)) en e ;;
      (* x.Type() called for its effect: the method caches its result in x.Typ (and writes nothing else:
         Proofs/ObserverProofs.observers_write_only_the_type_cache) *)
      match e with
      | ECall (ESel (EId x) "Type") [] =>
        match lookup x en with
        | Some (VObj ty fs) =>
          let fs' := match update "Typ" v fs with Some fs' => fs' | None => ("Typ", v) :: fs end in
          match update x (VObj ty fs') en with Some en' => Ok (en', buf, Run) | None => Ok (en, buf, Run) end
        | _ => Ok (en, buf, Run)
        end
      | ECall (ESel (EId x) "SetID") [_] =>
        (* x.SetID(id) called for its effect: the method has a pointer receiver and no result; [call] answers with the
           receiver as the method leaves it (obj_method), which becomes the value of x *)
        match v with
        | VObj _ _ => match update x v en with Some en' => Ok (en', buf, Run) | None => Fail ("unbound " ++ x) end
        | _ => Fail "SetID did not return the receiver"
        end
      | _ => Ok (en, buf, Run)
      end
    | SSetIndex x f i e =>
      v <- eval (Z.of_nat (List.length buf)) en e ;; k <- eval (Z.of_nat (List.length buf)) en i ;;
      match lookup x en, k with
      | Some (VList l), VInt z =>
        (* a local slice *)
        let l' := (firstn (Z.to_nat z) l ++ v :: skipn (S (Z.to_nat z)) l)%list in
        match update x (VList l') en with Some en' => Ok (en', buf, Run) | None => Fail "index assignment" end
      | Some (VStr l), VInt z =>
        (* a local []byte: Go panics unless 0 <= z < len; the stored value is a byte *)
        if ((z <? 0) || (Z.of_nat (List.length l) <=? z))%Z then Fail "panic"
        else match v with
             | VInt c =>
               match byte_of_Z c with
               | Some b =>
                 let l' := (firstn (Z.to_nat z) l ++ b :: skipn (S (Z.to_nat z)) l)%list in
                 match update x (VStr l') en with Some en' => Ok (en', buf, Run) | None => Fail "index assignment" end
               | None => Fail "store of a non-byte"
               end
             | _ => Fail "store of a non-byte"
             end
      | Some (VObj ty fs), VInt z =>
        match lookup f fs with
        | Some (VList l) =>
          let l' := (firstn (Z.to_nat z) l ++ v :: skipn (S (Z.to_nat z)) l)%list in
          match update f (VList l') fs with
          | Some fs' => match update x (VObj ty fs') en with Some en' => Ok (en', buf, Run) | None => Fail "index assignment" end
          | None => Fail "index assignment"
          end
        | _ => Fail "index assignment into a non-slice"
        end
      | _, _ => Fail "index assignment"
      end
    | SSet x path e =>
      v <- eval (Z.of_nat (List.length buf)) en e ;;
      match lookup x en with
      | Some o =>
        o' <- set_path path v o ;;
        match update x o' en with Some en' => Ok (en', buf, Run) | None => Fail "field assignment" end
      | None => Fail ("field assignment to unbound " ++ x)
      end
    | SChunk items => '(en1, buf1, stop) <- block items en buf ;; Ok (en1, buf1, stop)
    | SForMap k v coll body =>
      c <- eval (Z.of_nat (List.length buf)) en coll ;;
      let items := match c with VList l => Some l | VNil => Some [] | _ => None end in
      match items with
      | None => Fail "range over a non-map"
      | Some l =>
        (fix loop (l : list val) (en : env) (buf : bytes) : res st :=
           match l with
           | [] => Ok (en, buf, Run)
           | VTuple [kk; vv] :: r =>
             let en' := ((if String.eqb v "_" then [] else [(v, vv)]) ++ (if String.eqb k "_" then [] else [(k, kk)]) ++ en)%list in
             '(en1, buf1, stop) <- scoped body en' buf ;;
             let en2 := truncate (List.length en) en1 in
             if stopped stop && negb (is_cont stop) then Ok (en2, buf1, stop) else loop r en2 buf1
           | _ => Fail "map entry"
           end) l en buf
      end
    | SSwitch tag cases def =>
      t <- match tag with Some e => v <- eval (Z.of_nat (List.length buf)) en e ;; Ok (Some v) | None => Ok None end ;;
      let fix matches (es : list gexpr) : res bool :=
        match es with
        | [] => Ok false
        | e :: r =>
          v <- eval (Z.of_nat (List.length buf)) en e ;;
          b <- match t, v with
               | Some tv, _ => val_eqb tv v
               | None, VBool b => Ok b
               | None, _ => Fail "switch case is not a boolean"
               end ;;
          if b then Ok true else matches r
        end in
      let fix pick (cs : list (list gexpr * list gstmt)) : res st :=
        match cs with
        | [] => '(en1, buf1, stop) <- scoped def en buf ;; Ok (truncate (List.length en) en1, buf1, stop)
        | (es, body) :: r =>
          hit <- matches es ;;
          if hit then '(en1, buf1, stop) <- scoped body en buf ;; Ok (truncate (List.length en) en1, buf1, stop)
          else pick r
        end in
      pick cases
    | STypeSwitch x e cases def =>
      v <- eval (Z.of_nat (List.length buf)) en e ;;
      let fix pick (cs : list (list string * list gstmt)) : res st :=
        match cs with
        | [] => '(en1, buf1, stop) <- scoped def ((x, v) :: en) buf ;; Ok (truncate (List.length en) en1, buf1, stop)
        | (tys, body) :: r =>
          if existsb (String.eqb (dyn_type v)) tys || existsb (fun t => implements t (dyn_type v)) tys
          then '(en1, buf1, stop) <- scoped body ((x, v) :: en) buf ;; Ok (truncate (List.length en) en1, buf1, stop)
          else pick r
        end in
      pick cases
    | SFor3 init cond post body =>
      (* for init; cond; post { body }: at most 128 rounds (the loops of the printers walk the bits of a mask) *)
      '(en0, buf0, _) <- exec1 init en buf ;;
      '(en1, buf1, stop) <-
        (fix rounds (n : nat) (en : env) (buf : bytes) : res st :=
           match n with
           | O => Fail "loop bound exceeded"
           | S n' =>
             c <- eval (Z.of_nat (List.length buf)) en cond ;;
             match c with
             | VBool false => Ok (en, buf, Run)
             | VBool true =>
               '(en1, buf1, stop) <- scoped body en buf ;;
               if stopped stop && negb (is_cont stop) then Ok (en1, buf1, stop)
               else '(en2, buf2, _) <- exec1 post en1 buf1 ;; rounds n' en2 buf2
             | _ => Fail "condition is not a boolean"
             end
           end) 128 en0 buf0 ;;
      Ok (truncate (List.length en) en1, buf1, stop)
    | SWhile cond post body =>
      (* the number of rounds every such loop may take is the value of the variable $fuel (no Go identifier):
         the caller of the body supplies it among the globals; without it, or when it runs out, the run fails *)
      match lookup loop_fuel_var en with
      | Some (VInt n) =>
        '(en1, buf1, stop) <-
          while_loop (fun en buf => eval (Z.of_nat (List.length buf)) en cond) (scoped body) (block post) (Z.to_nat n) en buf ;;
        Ok (truncate (List.length en) en1, buf1, stop)
      | _ => Fail "no loop fuel"
      end
    | SBlock body => scoped body en buf
    | SForPtr k v coll body =>
      c <- eval (Z.of_nat (List.length buf)) en coll ;;
      match place_of coll, c with
      | Some (x, path), VList l => for_loop_ptr (scoped body) k v x path l 0%Z en buf
      | Some _, VNil => Ok (en, buf, Run)
      | _, _ => Fail "range over a non-list"
      end
    | SFor k v coll body =>
      c <- eval (Z.of_nat (List.length buf)) en coll ;;
      let items := match c with
                   | VList l => Some l | VNil => Some []
                   | VObj "app" _ => Some [VObj "app" [("fn", VStr (bytes_of_string "element")); ("args", VList [c])]]   (* an uninterpreted collection: one generic element *)
                   | _ => None end in
      match items with
      | None => Fail "range over a non-list"
      | Some l =>
        for_loop (scoped body) k v l 0%Z en buf
      end
    end.
  Definition exec (ss : list gstmt) (en : env) (buf : bytes) : res st :=
    (fix block (ss : list gstmt) (en : env) (buf : bytes) : res st :=
      match ss with
      | [] => Ok (en, buf, Run)
      | s :: r => '(en1, buf1, stop) <- exec1 s en buf ;; if stopped stop then Ok (en1, buf1, stop) else block r en1 buf1
      end) ss en buf.
End Run.

Fixpoint split_commas_aux (s : string) (cur : string) : list string :=
  match s with
  | EmptyString => [cur]
  | String c r => if Ascii.eqb c "," then cur :: split_commas_aux r EmptyString else split_commas_aux r (cur ++ String c EmptyString)
  end.
Definition split_commas (s : string) : list string := split_commas_aux s EmptyString.

(* one call: bind the receiver (or the parameters), run the body, return the value or the text *)
Definition run_body (implements : string -> string -> bool) (call : string -> string -> val -> res val)
    (globals : env) (p : printer) (recv : val) : res val :=
  let params := split_commas (p_recv p) in
  let frame := match params, recv with
               | [_], _ => [(p_recv p, recv)]
               | _, VTuple vs => combine params vs
               | _, _ => [(p_recv p, recv)]
               end in
  '(_, buf, fl) <- exec implements call (p_body p) (frame ++ globals)%list [] ;;
  match fl with Ret v => Ok v | _ => Ok (VStr buf) end.

(* ---- tying the knot: a call of a translated printer runs its body; fuel bounds the nesting ---- *)
Fixpoint call_printer (implements : string -> string -> bool) (globals : env) (fuel : nat) (ty m : string) (recv : val) : res val :=
  match fuel with
  | O => Fail "out of fuel"
  | S f =>
    match find_printer ty m with
    | Some p =>
      run_body implements (call_printer implements globals f) globals p recv
    | None => Fail ("no printer " ++ ty ++ "." ++ m)
    end
  end.

(* symbolic running: a function or method without a translated body is left uninterpreted; its
   application is a value that records the name and the arguments *)
Definition app (fn : string) (args : list val) : val := VObj "app" [("fn", VStr (bytes_of_string fn)); ("args", VList args)].
Fixpoint call_symbolic (implements : string -> string -> bool) (globals : env) (fuel : nat) (ty m : string) (recv : val) : res val :=
  match fuel with
  | O => Fail "out of fuel"
  | S f =>
    match find_printer ty m with
    | Some p => run_body implements (call_symbolic implements globals f) globals p recv
    | None => Ok (app m (match recv with VTuple vs => vs | v => [v] end))
    end
  end.

(* the same knot over any table of translated bodies (natsort_bodies) *)
Definition find_in (tbl : list printer) (ty m : string) : option printer :=
  find (fun p => String.eqb (p_type p) ty && String.eqb (p_method p) m) tbl.
Fixpoint call_table (tbl : list printer) (implements : string -> string -> bool) (globals : env) (fuel : nat) (ty m : string) (recv : val) : res val :=
  match fuel with
  | O => Fail "out of fuel"
  | S f =>
    match find_in tbl ty m with
    | Some p => run_body implements (call_table tbl implements globals f) globals p recv
    | None => Fail ("no body " ++ ty ++ "." ++ m)
    end
  end.

(* ---- the library functions the bodies of internal/enc call (strings, strconv) and the conversions between
   strings, byte slices, bytes and runes: calls that leave the translated code reach [call] under these names ---- *)
(* strings.IndexByte(s, c): the index of the first c in s, or -1 *)
Fixpoint index_byte (s : bytes) (c : Z) : Z :=
  match s with
  | [] => (-1)%Z
  | b :: r => if (Z.of_N (bN b) =? c)%Z then 0%Z else let k := index_byte r c in if (k <? 0)%Z then (-1)%Z else (k + 1)%Z
  end.
(* two adjacent bytes of s *)
Fixpoint has_pair (x y : Z) (s : bytes) : bool :=
  match s with
  | a :: ((b :: _) as r) => ((Z.of_N (bN a) =? x) && (Z.of_N (bN b) =? y))%Z || has_pair x y r
  | _ => false
  end.
(* strings.ContainsRune(s, r), for the runes UTF-8 writes in one byte (below 128: the byte itself) or in two
   (below 2048: 110xxxxx 10xxxxxx); other runes are outside this model *)
Definition contains_rune (s : bytes) (r : Z) : option bool :=
  if ((0 <=? r) && (r <? 128))%Z then Some (0 <=? index_byte s r)%Z
  else if ((128 <=? r) && (r <? 2048))%Z then Some (has_pair (192 + Z.shiftr r 6) (128 + Z.land r 63) s)
  else None.
Definition has_suffix (a suf : bytes) : bool := bytes_eqb (skipn (List.length a - List.length suf) a) suf.
Definition go_library (m : string) (v : val) : option (res val) :=
  if String.eqb m "strings.IndexByte" then
    Some (match v with VTuple [VStr s; VInt c] => Ok (VInt (index_byte s c)) | _ => Fail "strings.IndexByte" end)
  else if String.eqb m "strings.ContainsRune" then
    Some (match v with
          | VTuple [VStr s; VInt r] => match contains_rune s r with Some b => Ok (VBool b) | None => Fail "strings.ContainsRune of a rune above 2047" end
          | _ => Fail "strings.ContainsRune"
          end)
  else if String.eqb m "strings.HasSuffix" then
    Some (match v with VTuple [VStr a; VStr suf] => Ok (VBool (has_suffix a suf)) | _ => Fail "strings.HasSuffix" end)
  else if String.eqb m "strconv.ParseUint" then
    (* base 10, 64 bits: the value and a nil error, or (0 on a syntax error, the largest value on a range error) and an error *)
    Some (match v with
          | VTuple [VStr s; VInt 10; VInt 64] =>
            match parse_dec_N s with
            | Some n => if (n <? 2 ^ 64)%N then Ok (VTuple [VInt (Z.of_N n); VNil])
                        else Ok (VTuple [VInt (2 ^ 64 - 1); VObj "error" []])
            | None => Ok (VTuple [VInt 0; VObj "error" []])
            end
          | _ => Fail "strconv.ParseUint"
          end)
  else if String.eqb m "strconv.FormatInt" then
    Some (match v with VTuple [VInt z; VInt 10] => Ok (VStr (print_Z z)) | _ => Fail "strconv.FormatInt" end)
  else if String.eqb m "string" || String.eqb m "[]byte" then
    (* strings and byte slices are both byte lists; the conversions copy *)
    Some (match v with VStr b => Ok (VStr b) | _ => Fail "conversion" end)
  else if String.eqb m "byte" then
    (* the conversion to byte, also written by the translator around arithmetic at type byte: modulo 256 *)
    Some (match v with VInt z => Ok (VInt (z mod 256)) | _ => Fail "conversion" end)
  else if String.eqb m "rune" then
    Some (match v with VInt z => if ((- 2 ^ 31 <=? z) && (z <? 2 ^ 31))%Z then Ok (VInt z) else Fail "conversion" | _ => Fail "conversion" end)
  else None.

(* the knot over a table of translated bodies, with the library underneath *)
Fixpoint call_table_lib (tbl : list printer) (implements : string -> string -> bool) (globals : env) (fuel : nat) (ty m : string) (recv : val) : res val :=
  match fuel with
  | O => Fail "out of fuel"
  | S f =>
    match find_in tbl ty m with
    | Some p => run_body implements (call_table_lib tbl implements globals f) globals p recv
    | None =>
      match (if String.eqb ty "" then go_library m recv else None) with
      | Some r => r
      | None => Fail ("no body " ++ ty ++ "." ++ m)
      end
    end
  end.

(* ---- the ID-assignment passes (Gen/Printers.v idpass_bodies) ----
   Objects carry the fields of their embedded structs flattened (as EComposite builds them).  The identifier of an
   object is its embedded ir.LocalIdent (LocalName, LocalID), ir.GlobalIdent (GlobalName, GlobalID) or
   metadata.MetadataID (a field of that name); the promoted methods are
     func (i LocalIdent) ID() int64 { return i.LocalID }      func (i *LocalIdent) SetID(id int64) { i.LocalID = id }
     func (i LocalIdent) IsUnnamed() bool { return len(i.LocalName) == 0 }
   likewise for GlobalIdent, and  func (i MetadataID) ID() int64 { return int64(i) },
   func (i *MetadataID) SetID(id int64) { *i = MetadataID(id) }.
   SetID answers with the receiver as it leaves it (exec1, SExpr). *)
Definition id_field (fs : list (string * val)) : option string :=
  match lookup "MetadataID" fs, lookup "LocalID" fs, lookup "GlobalID" fs with
  | Some _, _, _ => Some "MetadataID"
  | None, Some _, _ => Some "LocalID"
  | None, None, Some _ => Some "GlobalID"
  | None, None, None => None
  end.
Definition obj_method (m : string) (v : val) : option (res val) :=
  if String.eqb m "ID" then
    Some (match v with
          | VObj _ fs =>
            match id_field fs with
            | Some f => match lookup f fs with Some (VInt z) | Some (VEnum _ z) => Ok (VInt z) | _ => Fail "ID" end
            | None => Fail "ID of an object without an identifier"
            end
          | _ => Fail "ID"
          end)
  else if String.eqb m "IsUnnamed" then
    Some (match v with
          | VObj _ fs =>
            match lookup "LocalName" fs, lookup "GlobalName" fs with
            | Some (VStr n), _ => Ok (VBool (Nat.eqb (List.length n) 0))
            | None, Some (VStr n) => Ok (VBool (Nat.eqb (List.length n) 0))
            | _, _ => Fail "IsUnnamed of an object without a name"
            end
          | _ => Fail "IsUnnamed"
          end)
  else if String.eqb m "SetID" then
    Some (match v with
          | VTuple [VObj ty fs; VInt id] =>
            match id_field fs with
            | Some f =>
              let w := if String.eqb f "MetadataID" then VEnum "metadata.MetadataID" id else VInt id in
              match update f w fs with Some fs' => Ok (VObj ty fs') | None => Fail "SetID" end
            | None => Fail "SetID of an object without an identifier"
            end
          | _ => Fail "SetID"
          end)
  else None.

(* maps with integer keys: a list of key/value pairs, one per key; m[k] of an absent key is the zero value, which
   for the maps met here (map[int64]bool) is false *)
Definition is_key (k : Z) (p : val) : bool := match p with VTuple [VInt k'; _] => Z.eqb k' k | _ => false end.
Definition idpass_library (m : string) (v : val) : option (res val) :=
  if String.eqb m "$mapget" then
    Some (match v with
          | VTuple [VList l; VInt k] => match find (is_key k) l with Some (VTuple [_; w]) => Ok w | _ => Ok (VBool false) end
          | _ => Fail "$mapget"
          end)
  else if String.eqb m "$maphas" then
    Some (match v with
          | VTuple [VList l; VInt k] =>
            match find (is_key k) l with Some (VTuple [_; w]) => Ok (VTuple [w; VBool true]) | _ => Ok (VTuple [VBool false; VBool false]) end
          | _ => Fail "$maphas"
          end)
  else if String.eqb m "$mapset" then
    Some (match v with
          | VTuple [VList l; VInt k; w] => Ok (VList (VTuple [VInt k; w] :: filter (fun p => negb (is_key k p)) l))
          | _ => Fail "$mapset"
          end)
  else if String.eqb (substring 0 7 m) "$named:" then
    (* the conversion T(x) to a named integer type T: the name follows the colon *)
    Some (match v with VInt z | VEnum _ z => Ok (VEnum (substring 7 (String.length m - 7) m) z) | _ => Fail "conversion" end)
  else if String.eqb m "types.Equal" then
    (* types.Equal(t, u) is t.Equal(u); every Equal method of package types first asserts that u has the receiver's
       kind, and the Equal method of VoidType does nothing else: against the void type the answer is whether t is the void type.
       Other comparisons are outside this library. *)
    Some (match v with
          | VTuple [VObj t _; VObj "types.VoidType" _] => Ok (VBool (String.eqb t "types.VoidType"))
          | _ => Fail "types.Equal with a type other than void on the right"
          end)
  else None.

(* the knot over a table of translated bodies, with the Go library, the library above and the identifier methods underneath *)
Fixpoint call_table_obj (tbl : list printer) (implements : string -> string -> bool) (globals : env) (fuel : nat) (ty m : string) (recv : val) : res val :=
  match fuel with
  | O => Fail "out of fuel"
  | S f =>
    match find_in tbl ty m with
    | Some p => run_body implements (call_table_obj tbl implements globals f) globals p recv
    | None =>
      match (if String.eqb ty "" then match idpass_library m recv with Some r => Some r | None => go_library m recv end else obj_method m recv) with
      | Some r => r
      | None => Fail ("no body " ++ ty ++ "." ++ m)
      end
    end
  end.

(* a method run for its effect on the receiver: the receiver (the first of the names of p_recv) as the body leaves it,
   and the value returned; a body without results ends without a return *)
Definition run_method (implements : string -> string -> bool) (call : string -> string -> val -> res val)
    (globals : env) (p : printer) (recv : val) : res (val * val) :=
  let params := split_commas (p_recv p) in
  let frame := match params, recv with
               | [_], _ => [(p_recv p, recv)]
               | _, VTuple vs => combine params vs
               | _, _ => [(p_recv p, recv)]
               end in
  '(en, _, fl) <- exec implements call (p_body p) (frame ++ globals)%list [] ;;
  match lookup (hd "" params) (truncate (List.length frame + List.length globals) en), fl with
  | Some r, Ret v => Ok (r, v)
  | Some r, Run => Ok (r, VNil)
  | _, _ => Fail "the body did not return"
  end.
