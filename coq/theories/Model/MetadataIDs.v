(* Model of the method AssignMetadataIDs of ir.Module (ir/module.go).
   A metadata definition carries an ID; -1 means "not yet assigned". *)
From Coq Require Import List Bool ZArith.
Import ListNotations.
Local Open Scope Z_scope.

Inductive outcome (A : Type) := Ok (a : A) | Err.
Arguments Ok {A}. Arguments Err {A}.

Definition memZ (x : Z) (l : list Z) : bool := existsb (Z.eqb x) l.

(* first loop: index the explicit IDs, error on a duplicate *)
Fixpoint index_used (ids : list Z) (used : list Z) : outcome (list Z) :=
  match ids with
  | [] => Ok used
  | id :: r => if id =? -1 then index_used r used
               else if memZ id used then Err else index_used r (id :: used)
  end.

(* nextID: for { curID++; if !used[curID] { return curID } } -- fuel = |used| + 1 suffices *)
Fixpoint next_id (fuel : nat) (cur : Z) (used : list Z) : Z :=
  match fuel with
  | O => cur + 1
  | S f => if memZ (cur + 1) used then next_id f (cur + 1) used else cur + 1
  end.

(* second loop *)
Fixpoint fill (ids : list Z) (cur : Z) (used : list Z) : list Z :=
  match ids with
  | [] => []
  | id :: r => if id =? -1 then let n := next_id (S (length used)) cur used in n :: fill r n used
               else id :: fill r cur used
  end.

Definition assign_md_ids (ids : list Z) : outcome (list Z) :=
  match index_used ids [] with
  | Ok used => Ok (fill ids (-1) used)
  | Err => Err
  end.
