(* Bit-level model of the IEEE interchange formats used by
   ir/constant/const_float.go: half (0xH), double and float-in-double (0x),
   fp128 (0xL).  The value in the middle is what a big.Float plus the NaN flag
   can hold: a signed zero, a signed odd mantissa with a binary exponent, a
   signed infinity, or a NaN of which only the sign is kept. *)
From Coq Require Import ZArith Bool.
Local Open Scope Z_scope.

Record fmt := { ew : Z; mw : Z }.          (* exponent field width, stored mantissa width *)
Definition binary16 := {| ew := 5; mw := 10 |}.
Definition binary32 := {| ew := 8; mw := 23 |}.
Definition binary64 := {| ew := 11; mw := 52 |}.
Definition binary128 := {| ew := 15; mw := 112 |}.

Definition bias (f : fmt) : Z := 2 ^ (ew f - 1) - 1.
Definition emin (f : fmt) : Z := 1 - bias f - mw f.       (* exponent of the last mantissa bit of subnormals *)
Definition emax_field (f : fmt) : Z := 2 ^ ew f - 1.

Inductive fval :=
| FZero (s : bool)
| FFin (s : bool) (m : positive) (e : Z)     (* (-1)^s * m * 2^e, m odd *)
| FInf (s : bool)
| FNaN (s : bool).

(* strip trailing zero bits *)
Fixpoint ctz (p : positive) : Z := match p with xO q => 1 + ctz q | _ => 0 end.
Fixpoint odd_part (p : positive) : positive := match p with xO q => odd_part q | _ => p end.
Definition norm (s : bool) (x : positive) (e : Z) : fval := FFin s (odd_part x) (e + ctz x).

Definition sign_bit (f : fmt) (s : bool) : Z := if s then 2 ^ (ew f + mw f) else 0.

Definition decode (f : fmt) (bits : Z) : fval :=
  let s := 0 <? bits / 2 ^ (ew f + mw f) in
  let E := (bits / 2 ^ mw f) mod 2 ^ ew f in
  let M := bits mod 2 ^ mw f in
  if E =? emax_field f then (if M =? 0 then FInf s else FNaN s)
  else if E =? 0 then
    match M with Zpos p => norm s p (emin f) | _ => FZero s end
  else match 2 ^ mw f + M with Zpos p => norm s p (E - bias f - mw f) | _ => FZero s end.

Definition encode (f : fmt) (v : fval) : Z :=
  match v with
  | FZero s => sign_bit f s
  | FInf s => sign_bit f s + emax_field f * 2 ^ mw f
  | FNaN s => sign_bit f s + emax_field f * 2 ^ mw f + 2 ^ (mw f - 1)     (* the canonical quiet NaN *)
  | FFin s m e =>
    let top := e + Z.log2 (Zpos m) in                 (* exponent of the leading bit *)
    if 1 - bias f <=? top then
      (* normal *)
      sign_bit f s + (top + bias f) * 2 ^ mw f + (Zpos m * 2 ^ (mw f - Z.log2 (Zpos m)) - 2 ^ mw f)
    else
      (* subnormal *)
      sign_bit f s + Zpos m * 2 ^ (e - emin f)
  end.

Definition is_nan_bits (f : fmt) (bits : Z) : bool :=
  ((bits / 2 ^ mw f) mod 2 ^ ew f =? emax_field f) && negb (bits mod 2 ^ mw f =? 0).
