(* Name-resolution skeleton of asm/translate.go (module level).
   Payloads are abstracted: a top-level definition is its namespace, identifier
   and the list of names it uses.  Go maps are association lists filled in the
   order an *oracle* dictates; everything downstream reads them through [get]. *)
From Coq Require Import List Bool ZArith Sorting.Permutation.
From LLIR Require Import Lib.Bytes.
Import ListNotations.

Inductive outcome (A : Type) := Ok (a : A) | Err | Panic.
Arguments Ok {A}. Arguments Err {A}. Arguments Panic {A}.

Inductive ns := NType | NComdat | NGlobal | NAttr | NMeta.
Definition ns_eqb (a b : ns) : bool :=
  match a, b with
  | NType, NType | NComdat, NComdat | NGlobal, NGlobal | NAttr, NAttr | NMeta, NMeta => true
  | _, _ => false
  end.

(* identifiers after the per-namespace decoding of C11: a name or a number *)
Inductive ident := IName (s : bytes) | INum (n : Z).
Definition ident_eqb (a b : ident) : bool :=
  match a, b with
  | IName x, IName y => bytes_eqb x y
  | INum x, INum y => Z.eqb x y
  | _, _ => false
  end.

Record use := { u_ns : ns; u_id : ident }.

Inductive tkind :=
| KOpaque                (* type opaque *)
| KAlias (target : ident)(* %a = type %b *)
| KPlain.                (* everything else *)

Record top := {
  t_ns : ns;
  t_id : option ident;        (* None: an unnamed global written without "@N =" *)
  t_kind : tkind;             (* only meaningful for NType *)
  t_uses : list use;
  t_blocks : list ident;      (* labels of a function definition, for blockaddress *)
  t_baddrs : list (ident * ident);   (* blockaddress(@f, %b) sites *)
}.

(* ---- step 1: indexTopLevelEntities ---- *)
(* unnamed globals are numbered in textual order: giveUnnamedIdentID overwrites any written number *)
Fixpoint number_globals (l : list top) (ctr : Z) : list (ns * ident * top) :=
  match l with
  | [] => []
  | t :: r =>
    match t_ns t, t_id t with
    | NGlobal, None | NGlobal, Some (INum _) => (NGlobal, INum ctr, t) :: number_globals r (ctr + 1)
    | n, Some i => (n, i, t) :: number_globals r ctr
    | n, None => (n, INum 0, t) :: number_globals r ctr     (* not produced by the grammar *)
    end
  end.

Definition amap := list (ns * ident * top).
Fixpoint get (m : amap) (n : ns) (i : ident) : option top :=
  match m with
  | [] => None
  | (n', i', t) :: r => if ns_eqb n n' && ident_eqb i i' then Some t else get r n i
  end.

(* duplicates: attribute groups merge; a type may be redefined once after "opaque"
   (the check only fires when the *previous* definition is not opaque); all else is an error *)
Fixpoint index_defs (l : list (ns * ident * top)) (acc : amap) : outcome amap :=
  match l with
  | [] => Ok acc
  | (n, i, t) :: r =>
    match get acc n i with
    | None => index_defs r (acc ++ [(n, i, t)])
    | Some prev =>
      match n with
      | NAttr => (* merged into the first one: the attributes (and their uses) are appended *)
                 index_defs r (map (fun e => let '(n', i', t') := e in
                                     if ns_eqb n n' && ident_eqb i i'
                                     then (n', i', {| t_ns := t_ns t'; t_id := t_id t'; t_kind := t_kind t';
                                                      t_uses := t_uses t' ++ t_uses t; t_blocks := t_blocks t';
                                                      t_baddrs := t_baddrs t' ++ t_baddrs t |})
                                     else e) acc)
      | NType => match t_kind prev with
                 | KOpaque => index_defs r (map (fun e => let '(n', i', t') := e in
                                                 if ns_eqb n n' && ident_eqb i i' then (n', i', t) else e) acc)
                 | _ => Err
                 end
      | _ => Err
      end
    end
  end.

(* ---- step 2a: createTypeDefs follows alias chains through the *old* index ---- *)
Fixpoint chase (old : amap) (fuel : nat) (seen : list ident) (i : ident) : outcome ident :=
  match fuel with
  | O => Err
  | S f =>
    match get old NType i with
    | None => Err                                       (* after fix e8258c9: "unable to locate type identifier" (was: nil dereference, a panic) *)
    | Some t =>
      match t_kind t with
      | KAlias target => if existsb (ident_eqb i) seen then Err else chase old f (i :: seen) target
      | _ => Ok i
      end
    end
  end.

(* ---- the loops over Go maps ---- *)
Definition oracle := forall (A : Type), list A -> list A.
Definition fair (o : oracle) : Prop := forall A (l : list A), Permutation (o A l) l.

Definition keys_of (m : amap) (n : ns) : list ident :=
  map (fun e => snd (fst e)) (filter (fun e => ns_eqb (fst (fst e)) n) m).

(* first error / panic met while visiting the keys in oracle order *)
Fixpoint first_failure {A} (l : list (outcome A)) : outcome unit :=
  match l with
  | [] => Ok tt
  | Ok _ :: r => first_failure r
  | Err :: _ => Err
  | Panic :: _ => Panic
  end.

(* resolution of one use against the complete index *)
Definition resolve (old : amap) (u : use) : outcome use :=
  match u_ns u with
  | NAttr => Ok u                                       (* undefined groups are materialised *)
  | n => match get old n (u_id u) with Some _ => Ok u | None => Err end
  end.
Definition resolve_baddr (old : amap) (fb : ident * ident) : outcome (ident * ident) :=
  match get old NGlobal (fst fb) with
  | Some f => if existsb (ident_eqb (snd fb)) (t_blocks f) then Ok fb else Err
  | None => Err
  end.

Definition check_def (old : amap) (n : ns) (i : ident) : outcome unit :=
  match get old n i with
  | None => Ok tt
  | Some t =>
    match first_failure (map (resolve old) (t_uses t)) with
    | Ok _ => first_failure (map (resolve_baddr old) (t_baddrs t))
    | e => e
    end
  end.

Definition check_type (old : amap) (i : ident) : outcome unit :=
  match chase old (S (length old)) [] i with Ok _ => Ok tt | Err => Err | Panic => Panic end.

Record ir_module := {
  m_types : list ident; m_comdats : list ident; m_globals : list ident;
  m_attrs : list ident; m_metas : list ident;
}.

Section Translate.
  Variable o : oracle.
  (* sort.Sort with natsort.Less / numeric order: any function returning a sorted permutation *)
  Variable sort_idents : list ident -> list ident.

  Definition translate (l : list top) : outcome ir_module :=
    match index_defs (number_globals l 0) [] with
    | Err => Err | Panic => Panic
    | Ok old =>
      (* 2a: type scaffolds, in map order *)
      match first_failure (map (check_type old) (o _ (keys_of old NType))) with
      | Err => Err | Panic => Panic
      | Ok _ =>
        (* 2b, 4b: bodies, each namespace in map order *)
        let visit n := first_failure (map (check_def old n) (o _ (keys_of old n))) in
        match visit NType with Err => Err | Panic => Panic | Ok _ =>
        match visit NGlobal with Err => Err | Panic => Panic | Ok _ =>
        match visit NAttr with Err => Err | Panic => Panic | Ok _ =>
        match visit NMeta with Err => Err | Panic => Panic | Ok _ =>
          (* 8: assembly *)
          Ok {| m_types := sort_idents (o _ (keys_of old NType));
                m_comdats := sort_idents (o _ (keys_of old NComdat));
                m_globals := keys_of old NGlobal;               (* globalOrder: textual *)
                m_attrs := sort_idents (o _ (keys_of old NAttr));
                m_metas := sort_idents (o _ (keys_of old NMeta)) |}
        end end end end
      end
    end.
End Translate.
