(* ppc_fp128 (0xM literals): const_float.go with github.com/mewmew/float/float128ppc.
   A literal is a pair of binary64 words (high, low).  Reading adds the two
   doubles in a big.Float of 106 bits (round to nearest even); printing splits
   that value again: high = the value rounded to binary64, low = the rest
   rounded to binary64.  Signed dyadic numbers m * 2^e stand for big.Float. *)
From Coq Require Import ZArith Bool.
From LLIR Require Import Model.FloatBits.
Local Open Scope Z_scope.

(* m / 2^k rounded to nearest, ties to even; m >= 0, k > 0 *)
Definition rne (m k : Z) : Z :=
  let q := m / 2 ^ k in let r := m mod 2 ^ k in let h := 2 ^ (k - 1) in
  if r <? h then q else if h <? r then q + 1 else if Z.even q then q else q + 1.

(* round |m| * 2^e to a multiple of 2^q *)
Definition round_to_quantum (m e q : Z) : Z * Z :=
  if q <=? e then (m, e) else (Z.sgn m * rne (Z.abs m) (q - e), q).
Definition round_prec (p : Z) (d : Z * Z) : Z * Z :=
  let '(m, e) := d in if m =? 0 then (0, 0) else round_to_quantum m e (e + Z.log2 (Z.abs m) + 1 - p).
(* big.Float.Float64: nearest binary64, gradual underflow; overflow is reported separately *)
Definition round64 (d : Z * Z) : Z * Z :=
  let '(m, e) := d in if m =? 0 then (0, 0) else round_to_quantum m e (Z.max (e + Z.log2 (Z.abs m) - 52) (-1074)).
Definition overflows64 (d : Z * Z) : bool := let '(m, e) := d in negb (m =? 0) && (1024 <=? e + Z.log2 (Z.abs m)).

(* big.Float keeps a normalised mantissa; here: an odd one *)
Definition dnorm (d : Z * Z) : Z * Z :=
  match fst d with
  | Zpos p => (Zpos (odd_part p), snd d + ctz p)
  | Zneg p => (Zneg (odd_part p), snd d + ctz p)
  | Z0 => (0, 0)
  end.
Definition dy_add (a b : Z * Z) : Z * Z :=
  let '(m1, e1) := a in let '(m2, e2) := b in
  let e := Z.min e1 e2 in dnorm (m1 * 2 ^ (e1 - e) + m2 * 2 ^ (e2 - e), e).
Definition dy_neg (a : Z * Z) : Z * Z := (- fst a, snd a).

Definition dy_of_fval (v : fval) : Z * Z :=
  match v with FFin s m e => ((if s then -1 else 1) * Zpos m, e) | _ => (0, 0) end.
Definition fval_of_dy (zero_sign : bool) (d : Z * Z) : fval :=
  match fst d with
  | Zpos p => norm false p (snd d)
  | Zneg p => norm true p (snd d)
  | Z0 => FZero zero_sign
  end.

Inductive ppc_result := PVal (v : fval) | PPanic.

Definition is_inf (v : fval) : option bool := match v with FInf s => Some s | _ => None end.
Definition sign_of (v : fval) : bool := match v with FZero s | FFin s _ _ | FInf s | FNaN s => s end.

(* Float.Big *)
Definition decode_ppc (a b : Z) : ppc_result :=
  let h := decode binary64 a in let l := decode binary64 b in
  match h, l with
  | FNaN _, _ | _, FNaN _ => PVal (FNaN false)                       (* x stays +0: the sign of a NaN is dropped *)
  | FInf s1, FInf s2 => if Bool.eqb s1 s2 then PVal (FInf s1) else PPanic   (* big.Float.Add panics with ErrNaN *)
  | FInf s, _ => PVal (FInf s)
  | _, FInf s => PVal (FInf s)
  | _, _ =>
    let x := round_prec 106 (dy_add (dy_of_fval h) (dy_of_fval l)) in
    (* an exact zero sum is +0 under ToNearestEven unless both are -0; then forced negative when high is negative *)
    PVal (fval_of_dy (sign_of h) x)
  end.

(* NewFromBig followed by Bits *)
(* None: Ident panics *)
Definition encode_ppc (v : fval) : option (Z * Z) :=
  match v with
  | FNaN _ => Some (0x7FF8000000000001, 0)          (* math.NaN(), whatever the sign: c.X is +0 *)
  | FInf _ => Some (encode binary64 (FInf false), 0)   (* float128ppc.NegInf is -math.Inf(-1), which is +Inf: the sign is lost *)
  | FZero s => Some (encode binary64 (FZero s), 0)
  | FFin _ _ _ =>
    let x := round_prec 106 (dy_of_fval v) in
    if overflows64 (round64 x) then None else   (* high becomes Inf, the rest -Inf, and their big.Float sum panics *)
    let h := round64 x in
    let l := round64 (round_prec 106 (dy_add x (dy_neg h))) in
    Some (encode binary64 (fval_of_dy (sign_of v) h), encode binary64 (fval_of_dy false l))
  end.
