(* Flag sets (C18): ir/metadata/helper.go diFlagsString / dispFlagsString, ir/helper.go allocKindString
   (printer side: walk the single-bit masks from First to Last, emit the keyword of every mask that is
   set; DIFlag first emits the 2-bit accessibility field) and asm irDIFlags / irDISPFlags / the
   allockind reader (parser side: OR of the values of the keywords).  Keywords come from the
   regenerated tables Gen/Enums.v. *)
From Coq Require Import List Bool NArith ZArith.
From Coq Require Import Strings.Byte.
From LLIR Require Import Gen.Enums Model.EnumModel.
Import ListNotations.
Local Open Scope N_scope.

(* for mask := first; mask <= last; mask <<= 1 : the masks visited, as exponents *)
Definition bit_range (lo hi : nat) : list nat := seq lo (S hi - lo).
Definition mask_of (k : nat) : N := 2 ^ N.of_nat k.

(* the members printed for [flags]: masks that are set, in increasing order *)
Definition members (flags : N) (ks : list nat) : list N :=
  map mask_of (filter (fun k => N.testbit flags (N.of_nat k)) ks).

(* parser side: OR of the member values *)
Definition union (l : list N) : N := fold_right N.lor 0 l.

(* DIFlag: the accessibility field (bits 0-1) is one member with three keywords *)
Definition di_members (flags : N) (ks : list nat) : list N :=
  (if N.eqb (N.land flags 3) 0 then [] else [N.land flags 3]) ++ members flags ks.

(* keyword of a member value and its reading, through the regenerated table of the enum type *)
Definition keyword (t : enum_tables) (v : N) : option (list byte) := to_string t (Z.of_N v).
Definition value_of (t : enum_tables) (s : list byte) : option N :=
  match from_string t s with EnumModel.Ok z => Some (Z.to_N z) | Panic => None end.
Fixpoint read_all (t : enum_tables) (ss : list (list byte)) : option N :=
  match ss with
  | [] => Some 0
  | s :: r => match value_of t s, read_all t r with Some v, Some w => Some (N.lor v w) | _, _ => None end
  end.
Fixpoint print_all (t : enum_tables) (vs : list N) : option (list (list byte)) :=
  match vs with
  | [] => Some []
  | v :: r => match keyword t v, print_all t r with Some s, Some ss => Some (s :: ss) | _, _ => None end
  end.
