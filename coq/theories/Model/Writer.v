(* Model of ir/helper.go fmtWriter and of how ir/module.go WriteTo drives it:
   a sequence of chunks, each handed to the underlying io.Writer by one Write
   call (package fmt formats into a buffer and calls Write once). *)
From Coq Require Import List Bool Arith.
From LLIR Require Import Lib.Bytes.
Import ListNotations.

Section Writer.
  (* an io.Writer with internal state W: Write(p) = (n, err != nil), new state *)
  Variable W : Type.
  Variable write : W -> bytes -> W * nat * bool.

  Record fw := {
    fw_w : W;
    fw_size : nat;                 (* bytes accepted so far *)
    fw_err : option nat;           (* index of the call that returned the first error *)
    fw_calls : nat;                (* Write calls issued *)
    fw_delivered : bytes;          (* bytes the writer accepted: p[:n] of every call *)
  }.

  Definition fw_init (w : W) : fw :=
    {| fw_w := w; fw_size := 0; fw_err := None; fw_calls := 0; fw_delivered := [] |}.

  (* Fprint / Fprintf / Fprintln: skip if an error is latched; otherwise one Write *)
  Definition fw_print (s : fw) (p : bytes) : fw :=
    match fw_err s with
    | Some _ => s
    | None =>
      let '(w', n, failed) := write (fw_w s) p in
      {| fw_w := w';
         fw_size := fw_size s + n;
         fw_err := if failed then Some (fw_calls s) else None;
         fw_calls := S (fw_calls s);
         fw_delivered := fw_delivered s ++ firstn n p |}
    end.

  Definition run (w : W) (chunks : list bytes) : fw := fold_left fw_print chunks (fw_init w).

  (* WriteTo returns (fw.size, fw.err) *)
  Definition write_to (w : W) (chunks : list bytes) : nat * option nat :=
    let s := run w chunks in (fw_size s, fw_err s).
End Writer.
