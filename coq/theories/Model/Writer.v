(* Model of ir/helper.go fmtWriter and of how ir/module.go WriteTo drives it:
   a sequence of chunks, each handed to the underlying io.Writer by one Write
   call (package fmt formats into a buffer and calls Write once). *)
From Coq Require Import List Bool Arith.
From LLIR Require Import Lib.Bytes.
Import ListNotations.

Section Writer.
  (* an io.Writer with internal state W: Write(p) = (n, err != nil), new state *)
  Variable W : Type.
  Variable write : W -> bytes -> W * nat * bool.

  Record fw := {
    fw_w : W;
    fw_size : nat;                 (* bytes accepted so far *)
    fw_err : option nat;           (* index of the call that returned the first error *)
    fw_calls : nat;                (* Write calls issued *)
    fw_delivered : bytes;          (* bytes the writer accepted: p[:n] of every call *)
  }.

  Definition fw_init (w : W) : fw :=
    {| fw_w := w; fw_size := 0; fw_err := None; fw_calls := 0; fw_delivered := [] |}.

  (* Fprint / Fprintf / Fprintln: skip if an error is latched; otherwise one Write *)
  Definition fw_print (s : fw) (p : bytes) : fw :=
    match fw_err s with
    | Some _ => s
    | None =>
      let '(w', n, failed) := write (fw_w s) p in
      {| fw_w := w';
         fw_size := fw_size s + n;
         fw_err := if failed then Some (fw_calls s) else None;
         fw_calls := S (fw_calls s);
         fw_delivered := fw_delivered s ++ firstn n p |}
    end.

  Definition run (w : W) (chunks : list bytes) : fw := fold_left fw_print chunks (fw_init w).

  (* WriteTo returns (fw.size, fw.err) *)
  Definition write_to (w : W) (chunks : list bytes) : nat * option nat :=
    let s := run w chunks in (fw_size s, fw_err s).
End Writer.

(* WriteTo's control flow reads fw.size: the blank line between two sections is printed only when
   something has been accepted already (if len(m.X) > 0 && fw.size > 0 { fw.Fprint(newline) }).
   An item is therefore either an unconditional chunk or one guarded by fw.size > 0. *)
Inductive item := Always (p : bytes) | IfNonEmpty (p : bytes).

Section WriterItems.
  Variable W : Type.
  Variable write : W -> bytes -> W * nat * bool.
  Definition fw_item (s : fw W) (i : item) : fw W :=
    match i with
    | Always p => fw_print W write s p
    | IfNonEmpty p => if Nat.ltb 0 (fw_size W s) then fw_print W write s p else s
    end.
  Definition run_items (w : W) (items : list item) : fw W := fold_left fw_item items (fw_init W w).
End WriterItems.

(* the text the same items produce on a writer that accepts everything (String()) *)
Fixpoint text_of (printed : bytes) (items : list item) : bytes :=
  match items with
  | [] => printed
  | Always p :: r => text_of (printed ++ p) r
  | IfNonEmpty p :: r => if Nat.ltb 0 (length printed) then text_of (printed ++ p) r else text_of printed r
  end.

(* the writers used by the correspondence leg: accept at most k bytes in total, then fail *)
Definition fail_after (k : nat) (w : nat) (p : bytes) : nat * nat * bool :=
  if Nat.leb (w + length p) k then (w + length p, length p, false)
  else (k, k - w, true).
