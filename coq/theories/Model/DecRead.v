(* DecRead.v -- an executable, correctly rounded reader of non-negative
   rationals n/d into IEEE-754 binary64, in integer form.

   A finite non-negative double is represented by ONE integer K; its value
   is K * 2^-1074.  Standard library only. *)

From Coq Require Import ZArith Bool.
Local Open Scope Z_scope.

Inductive rd := RFinite (K : Z) | RInf.

(* rne_qr q r b : round q + r/b (0 <= r < b) to the nearest integer, ties to even. *)
Definition rne_qr (q r b : Z) : Z :=
  if 2 * r <? b then q
  else if b <? 2 * r then q + 1
  else if Z.even q then q else q + 1.

(* rne a b : the integer nearest to a/b (b > 0), ties to even. *)
Definition rne (a b : Z) : Z :=
  let (q, r) := Z.div_eucl a b in rne_qr q r b.

(* rne_shift q0 sticky j : round (q0 + f) / 2^j to the nearest integer, ties to
   even, where 0 <= f < 1 and sticky tells whether f <> 0 (j >= 1).  Only
   shifts and masks: no second division. *)
Definition rne_shift (q0 : Z) (sticky : bool) (j : Z) : Z :=
  let q := Z.shiftr q0 j in
  let low := Z.land q0 (Z.ones j) in
  let half := Z.shiftl 1 (j - 1) in
  if low <? half then q
  else if (half <? low) || sticky then q + 1
  else if Z.even q then q else q + 1.

(* Renormalise a significand that rounded up to 2^53. *)
Definition norm (m j : Z) : Z * Z :=
  if m =? 2^53 then (2^52, j + 1) else (m, j).

(* readX X d : X/d is the target in units of 2^-1074.  One long division. *)
Definition readX (X d : Z) : rd :=
  let (q0, r0) := Z.div_eucl X d in
  if q0 <? 2^53 then RFinite (rne_qr q0 r0 d)
  else
    let j := Z.log2 q0 - 52 in
    let m := rne_shift q0 (negb (r0 =? 0)) j in
    let (m', j') := norm m j in
    if j' >? 2045 then RInf else RFinite (m' * 2^j').

Definition read (n d : Z) : rd := readX (Z.shiftl n 1074) d.

Definition representable (K : Z) : Prop :=
  exists m j, 0 <= m < 2^53 /\ 0 <= j <= 2045 /\ K = m * 2^j.

(* The 63-bit pattern: biased exponent << 52 | fraction. *)
Definition bits_of (K : Z) : Z :=
  if K <? 2^52 then K
  else
    let e := Z.log2 K - 52 in
    (e + 1) * 2^52 + (Z.shiftr K e - 2^52).

Definition bits_of_rd (r : rd) : Z :=
  match r with
  | RFinite K => bits_of K
  | RInf => 0x7FF0000000000000
  end.

(* mant * 10^e10, mant >= 0. *)
Definition read_decimal (mant : Z) (e10 : Z) : rd :=
  if 0 <=? e10 then read (mant * 10^e10) 1
  else read mant (10^(- e10)).
