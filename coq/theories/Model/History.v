(* Model of API histories on one function (C14): builder and editing operations
   on the walk order of AssignIDs, interleaved with observers.  Printing is the
   only observer that touches print-relevant state: it runs AssignIDs and
   panics when that returns an error. *)
From Coq Require Import List Bool ZArith.
From LLIR Require Import Model.Numbering.
Import ListNotations.
Local Open Scope Z_scope.

Inductive op :=
| Insert (pos : nat) (x : item)        (* append (pos = length) or insert a parameter, block, instruction, terminator *)
| Remove (pos : nat)
| Rename (pos : nat) (named : bool)    (* SetName: sets the name and resets the stored ID to 0 *)
| Print                                 (* String / WriteTo / LLString *)
| Query.                                (* Type, Ident, Operands, Succs: fill caches the printer does not read *)

Fixpoint insert_at {A} (n : nat) (x : A) (l : list A) : list A :=
  match n, l with
  | O, _ => x :: l
  | S n', y :: r => y :: insert_at n' x r
  | S _, [] => [x]
  end.
Fixpoint remove_at {A} (n : nat) (l : list A) : list A :=
  match n, l with
  | _, [] => []
  | O, _ :: r => r
  | S n', y :: r => y :: remove_at n' r
  end.
Fixpoint update_at {A} (n : nat) (f : A -> A) (l : list A) : list A :=
  match n, l with
  | _, [] => []
  | O, y :: r => f y :: r
  | S n', y :: r => y :: update_at n' f r
  end.

Definition rename (named : bool) (x : item) : item :=
  {| it_named := named; it_id := 0; it_value := it_value x |}.

(* None = the process has panicked *)
Definition step (s : option (list item)) (o : op) : option (list item) :=
  match s with
  | None => None
  | Some l =>
    match o with
    | Insert p x => Some (insert_at p x l)
    | Remove p => Some (remove_at p l)
    | Rename p n => Some (update_at p (rename n) l)
    | Query => Some l
    | Print => match assign_ids l with Ok l' => Some l' | Err => None end
    end
  end.
Definition run (h : list op) (l : list item) : option (list item) := fold_left step h (Some l).

(* what a final print shows: the numbering (names are untouched by everything but Rename) *)
Definition final_print (h : list op) (l : list item) : option (list item) := run (h ++ [Print]) l.
