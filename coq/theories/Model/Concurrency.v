(* Abstract shared-memory model of N goroutines printing the same function:
   each printer runs AssignIDs under the function's mutex, then reads the IDs
   outside the mutex while rendering.  The parameter [guarded] says whether
   setName writes the ID only when it differs from the stored one; it is
   regenerated from the source (Gen/Locks.v). *)
From Coq Require Import List Bool Arith ZArith.
Import ListNotations.

Inductive phase :=
| Idle                    (* before Lock *)
| Inside (i : nat)        (* holds the mutex, about to process cell i *)
| Outside (j : nat)       (* mutex released, about to read cell j for printing *)
| Done.

Record state := {
  cells : list Z;             (* stored ID of each unnamed value *)
  threads : list phase;
}.

Section Printer.
  Variable guarded : bool.
  Variable expected : list Z.     (* the number LLVM assigns to each cell *)
  Definition k := length expected.

  Definition cell (s : state) (i : nat) : Z := nth i (cells s) 0%Z.
  Definition exp (i : nat) : Z := nth i expected 0%Z.

  Fixpoint set_nth {A} (i : nat) (v : A) (l : list A) : list A :=
    match l, i with
    | [], _ => []
    | _ :: r, O => v :: r
    | x :: r, S i' => x :: set_nth i' v r
    end.

  Definition lock_free (s : state) : bool :=
    forallb (fun p => match p with Inside _ => false | _ => true end) (threads s).

  (* does the thread in this phase write cell i at its next step? *)
  Definition writes (s : state) (p : phase) (i : nat) : bool :=
    match p with
    | Inside i' => (i' =? i) && (i <? k) && (negb guarded || negb (Z.eqb (cell s i) (exp i)))
    | _ => false
    end.
  (* does it read cell i at its next step?  inside: n.ID(); outside: printing *)
  Definition reads (p : phase) (i : nat) : bool :=
    match p with
    | Inside i' => (i' =? i) && (i <? k)
    | Outside j => (j =? i) && (i <? k)
    | _ => false
    end.
  Definition in_lock (p : phase) : bool := match p with Inside _ => true | _ => false end.

  (* one step of thread t *)
  Definition step_thread (s : state) (t : nat) : option state :=
    match nth_error (threads s) t with
    | Some Idle => if lock_free s then Some {| cells := cells s; threads := set_nth t (Inside 0) (threads s) |} else None
    | Some (Inside i) =>
      if i <? k then
        let c := if writes s (Inside i) i then set_nth i (exp i) (cells s) else cells s in
        Some {| cells := c; threads := set_nth t (Inside (S i)) (threads s) |}
      else Some {| cells := cells s; threads := set_nth t (Outside 0) (threads s) |}
    | Some (Outside j) =>
      if j <? k then Some {| cells := cells s; threads := set_nth t (Outside (S j)) (threads s) |}
      else Some {| cells := cells s; threads := set_nth t Done (threads s) |}
    | Some Done | None => None
    end.

  Inductive reachable (s0 : state) : state -> Prop :=
  | reach_refl : reachable s0 s0
  | reach_step s t s' : reachable s0 s -> step_thread s t = Some s' -> reachable s0 s'.

  (* a data race: two different threads whose next steps access the same cell,
     one of them writing, and not both under the mutex *)
  Definition race (s : state) : Prop :=
    exists t t' p p' i, t <> t' /\ nth_error (threads s) t = Some p /\ nth_error (threads s) t' = Some p' /\
      writes s p i = true /\ (reads p' i = true \/ writes s p' i = true) /\
      (in_lock p && in_lock p' = false).

  (* initial states: every thread idle, every cell unset (0) or already correct *)
  Definition initial (s : state) : Prop :=
    length (cells s) = k /\ Forall (fun p => p = Idle) (threads s) /\
    forall i, i < k -> cell s i = 0%Z \/ cell s i = exp i.
End Printer.
