(* Model of internal/gep/gep.go ResultType and of the index classifiers that
   feed it:
     asm/inst_memory.go   getIndex          (parser, instructions and alias scaffolds)
     ir/inst_memory.go    gepInstType       (instruction constructor)
     ir/constant/expr_memory.go gepExprType (expression constructor; also used by the
                                             parser for constant expressions)
     asm/global.go        gepExprType       (alias / ifunc address-space inference) *)
From Coq Require Import List Bool NArith ZArith.
From LLIR Require Import Lib.Bytes Model.Types.
Import ListNotations.

Inductive outcome (A : Type) := Ok (a : A) | Panic.
Arguments Ok {A}. Arguments Panic {A}.

(* gep.Index *)
Record index := { has_val : bool; val : Z; vector_len : N }.
Definition new_index (v : Z) : index := {| has_val := true; val := v; vector_len := 0 |}.
Definition no_val (vl : N) : index := {| has_val := false; val := 0; vector_len := vl |}.

(* bodies of identified struct types: gep indexes into elm.Fields of named structs too *)
Definition env := bytes -> option (list ty).

Section ResultType.
  Variable bodies : env.

  Definition struct_field (fs : list ty) (ix : index) : outcome ty :=
    if negb (has_val ix) then Panic
    else if (val ix <? 0)%Z then Panic      (* Go: index out of range *)
    else match nth_error fs (Z.to_nat (val ix)) with Some f => Ok f | None => Panic end.

  (* one iteration of the loop body for i >= 1 *)
  Definition step_type (e : ty) (ix : index) : outcome ty :=
    match e with
    | TVec _ _ el => Ok el
    | TArr _ el => Ok el
    | TStruct _ fs => struct_field fs ix
    | TNamed n => match bodies n with Some fs => struct_field fs ix | None => Panic end
    | _ => Panic          (* pointer: explicit panic; scalars: "cannot index into type" *)
    end.

  (* the bookkeeping of the result vector length, done for every index including the first *)
  Definition merge_len (rvl : N) (ix : index) : outcome N :=
    if negb (N.eqb (vector_len ix) 0) && negb (N.eqb rvl 0) && negb (N.eqb (vector_len ix) rvl)
    then Panic
    else Ok (if N.eqb rvl 0 && negb (N.eqb (vector_len ix) 0) then vector_len ix else rvl).

  Fixpoint walk (first : bool) (e : ty) (idxs : list index) (rvl : N) : outcome (ty * N) :=
    match idxs with
    | [] => Ok (e, rvl)
    | ix :: r =>
      match merge_len rvl ix with
      | Panic => Panic
      | Ok rvl' =>
        if first then walk false e r rvl'
        else match step_type e ix with
             | Ok e' => walk false e' r rvl'
             | Panic => Panic
             end
      end
    end.

  Definition result_type (elem src : ty) (idxs : list index) : outcome ty :=
    let start :=
      match src with
      | TPtr _ a => Ok (a, 0%N)
      | TVec _ len (TPtr _ a) => Ok (a, len)          (* scalability of src is not recorded *)
      | _ => Panic
      end in
    match start with
    | Panic => Panic
    | Ok (a, rvl0) =>
      match walk true elem idxs rvl0 with
      | Panic => Panic
      | Ok (e, rvl) =>
        let p := TPtr e a in
        Ok (if N.eqb rvl 0 then p else TVec false rvl p)
      end
    end.
End ResultType.

(* ---- the shapes an index operand can take ---- *)
Inductive ishape := Scalar | Vector (scalable : bool) (len : N).
Definition shape_len (s : ishape) : N := match s with Scalar => 0 | Vector _ n => n end.

Inductive celem := EInt (v : Z) | EOther.            (* element of a vector constant *)
Inductive cform :=
| CInt (v : Z)                  (* integer constant (constant.True/False are integer constants 1/0) *)
| CBoolLit (b : bool)           (* the literals true / false as the parser sees them *)
| CZero (s : ishape)            (* zeroinitializer *)
| CVec (elems : list celem)     (* vector constant *)
| CUndef (s : ishape)
| CPoison (s : ishape)
| CPtrToInt (s : ishape)        (* ptrtoint constant expression *)
| CExpr (s : ishape)            (* any other constant expression *)
| COther.                       (* null, float, struct, ... : not a valid index *)
Inductive iform :=
| IConst (c : cform)
| IValue (s : ishape).          (* non-constant operand *)

(* x.Int64(): low 64 bits as signed *)
Definition int64_of (x : Z) : Z :=
  let m := (x mod 2 ^ 64)%Z in if (m <? 2 ^ 63)%Z then m else (m - 2 ^ 64)%Z.

Fixpoint splat_value (els : list celem) (first : option Z) (n : N) : outcome index :=
  match els with
  | [] => match first with Some v => Ok {| has_val := true; val := v; vector_len := n |} | None => Ok (no_val 0) end
  | EInt x :: r =>
      match first with
      | None => splat_value r (Some (int64_of x)) n
      | Some v => if (int64_of x =? v)%Z then splat_value r first n else Ok (no_val n)
      end
  | EOther :: _ => Panic
  end.
Definition vec_index (els : list celem) : outcome index :=
  match els with [] => Ok (no_val 0) | _ => splat_value els None (N.of_nat (length els)) end.

Definition cform_shape (c : cform) : ishape :=
  match c with
  | CInt _ | CBoolLit _ | COther => Scalar
  | CZero s | CUndef s | CPoison s | CPtrToInt s | CExpr s => s
  | CVec els => Vector false (N.of_nat (length els))
  end.

(* ir/inst_memory.go and ir/constant/expr_memory.go: getIndex (identical copies) *)
Definition get_index_ir (c : cform) : outcome index :=
  match c with
  | CInt v => Ok (new_index (int64_of v))
  | CBoolLit b => Ok (new_index (if b then 1 else 0))     (* constant.True / False are *constant.Int *)
  | CZero _ => Ok (new_index 0)
  | CVec els => vec_index els
  | CUndef _ | CPoison _ | CPtrToInt _ | CExpr _ => Ok (no_val 0)
  | COther => Panic
  end.

(* asm/inst_memory.go: getIndex on the AST *)
Definition get_index_asm (c : cform) : outcome index :=
  match c with
  | CInt v => Ok (new_index (int64_of v))
  | CBoolLit b => Ok (new_index (if b then 1 else 0))
  | CZero _ => Ok (new_index 0)
  | CVec els => vec_index els
  | CPtrToInt _ | CUndef _ | CPoison _ => Ok (no_val 0)
  | CExpr _ | COther => Panic
  end.

Definition with_len (o : outcome index) (n : N) : outcome index :=
  match o with
  | Ok ix => Ok {| has_val := has_val ix; val := val ix; vector_len := n |}
  | Panic => Panic
  end.

(* the four call sites *)
Definition classify_asm_inst (f : iform) : outcome index :=
  match f with IConst c => get_index_asm c | IValue s => Ok (no_val (shape_len s)) end.
Definition classify_ir_inst (f : iform) : outcome index :=
  match f with IConst c => get_index_ir c | IValue s => Ok (no_val (shape_len s)) end.
Definition classify_ir_expr (c : cform) : outcome index :=
  match cform_shape c with
  | Vector _ n => with_len (get_index_ir c) n
  | Scalar => get_index_ir c
  end.
Definition classify_asm_alias (c : cform) : outcome index := get_index_asm c.

(* ---- LLVM's rule, stated independently ---- *)
Section Llvm.
  Variable bodies : env.
  (* element type reached; struct steps need a constant in-range field number *)
  Fixpoint llvm_elem (e : ty) (steps : list (option Z)) : option ty :=
    match steps with
    | [] => Some e
    | s :: r =>
      match e with
      | TVec _ _ el | TArr _ el => llvm_elem el r
      | TStruct _ fs =>
          match s with Some v => if (v <? 0)%Z then None else
            match nth_error fs (Z.to_nat v) with Some f => llvm_elem f r | None => None end | None => None end
      | TNamed n =>
          match bodies n, s with
          | Some fs, Some v => if (v <? 0)%Z then None else
              match nth_error fs (Z.to_nat v) with Some f => llvm_elem f r | None => None end
          | _, _ => None
          end
      | _ => None
      end
    end.
  (* the vector shape of the result: that of the first vector operand (base or index) *)
  Definition first_vector (shapes : list ishape) : ishape :=
    match filter (fun s => match s with Vector _ _ => true | Scalar => false end) shapes with
    | v :: _ => v | [] => Scalar end.
  Definition llvm_gep (elem : ty) (addrspace : N) (base_shape : ishape)
             (idx_shapes : list ishape) (steps : list (option Z)) : option ty :=
    match llvm_elem elem steps with
    | Some e =>
      let p := TPtr e addrspace in
      Some match first_vector (base_shape :: idx_shapes) with
           | Scalar => p
           | Vector sc n => TVec sc n p
           end
    | None => None
    end.
End Llvm.
