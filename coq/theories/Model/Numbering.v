(* Model of the method AssignIDs of ir.Func (ir/func.go) and of
   AssignGlobalIDs of ir.Module (ir/module.go): both walk a sequence of
   "named variables" with the same closure setName. *)
From Coq Require Import List Bool ZArith.
Import ListNotations.
Local Open Scope Z_scope.

Inductive outcome (A : Type) := Ok (a : A) | Err.
Arguments Ok {A}. Arguments Err {A}.

(* one entry of the walk: a parameter, a basic block, an instruction or a terminator *)
Record item := {
  it_named : bool;      (* has a non-empty name: IsUnnamed() = false *)
  it_id : Z;            (* the stored LocalID / GlobalID; 0 doubles as "unset" *)
  it_value : bool;      (* takes part in numbering: false for store/fence and for void call/invoke/callbr *)
}.

Definition set_id (x : item) (id : Z) : item :=
  {| it_named := it_named x; it_id := id; it_value := it_value x |}.

(* setName, threaded through the walk *)
Fixpoint assign (l : list item) (id : Z) : outcome (list item) :=
  match l with
  | [] => Ok []
  | x :: r =>
    if it_value x && negb (it_named x) then
      if negb (it_id x =? 0) && negb (id =? it_id x) then Err
      else match assign r (id + 1) with Ok r' => Ok (set_id x id :: r') | Err => Err end
    else match assign r id with Ok r' => Ok (x :: r') | Err => Err end
  end.

Definition assign_ids (l : list item) : outcome (list item) := assign l 0.

(* LLVM's rule, stated independently: the k-th unnamed value gets number k *)
Fixpoint llvm_number (l : list item) (k : Z) : list item :=
  match l with
  | [] => []
  | x :: r => if it_value x && negb (it_named x) then set_id x k :: llvm_number r (k + 1)
              else x :: llvm_number r k
  end.

(* ---- module level ----
   asm/module.go indexTopLevelEntities numbers the unnamed global variables, aliases, ifuncs and
   functions with one counter in TEXTUAL order (giveUnnamedIdentID overwrites whatever ID the text
   gave); ir/module.go AssignGlobalIDs re-validates, at print time, in GROUP order: all global
   variables, then aliases, then ifuncs, then functions. *)
Inductive gkind := KGlobal | KAlias | KIFunc | KFunc.
Definition gkind_eqb (a b : gkind) : bool :=
  match a, b with KGlobal, KGlobal | KAlias, KAlias | KIFunc, KIFunc | KFunc, KFunc => true | _, _ => false end.
Record gent := { g_kind : gkind; g_item : item }.

Fixpoint parser_number (l : list gent) (k : Z) : list gent :=
  match l with
  | [] => []
  | g :: r => if negb (it_named (g_item g))
              then {| g_kind := g_kind g; g_item := set_id (g_item g) k |} :: parser_number r (k + 1)
              else g :: parser_number r k
  end.
Definition of_gkind (k : gkind) (l : list gent) : list gent := filter (fun g => gkind_eqb (g_kind g) k) l.
Definition group_order (l : list gent) : list gent :=
  of_gkind KGlobal l ++ of_gkind KAlias l ++ of_gkind KIFunc l ++ of_gkind KFunc l.
(* asm/translate.go addGlobalEntitiesToModule (after fix 'renumber unnamed globals in printer order'):
   the module holds four slices (the textual order restricted to each kind); the unnamed definitions
   are renumbered walking the slices in the printer's order.  The result is the concatenation of the
   four slices, which is also what AssignGlobalIDs walks at print time. *)
Definition parse_module (l : list gent) : list gent := parser_number (group_order (parser_number l 0)) 0.
Definition print_after_parse (l : list gent) : outcome (list item) := assign_ids (map g_item (parse_module l)).
(* the same before the fix (no renumbering), kept to state what was wrong *)
Definition print_after_parse_unfixed (l : list gent) : outcome (list item) :=
  assign_ids (map g_item (group_order (parser_number l 0))).
