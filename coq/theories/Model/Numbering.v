(* Model of the method AssignIDs of ir.Func (ir/func.go) and of
   AssignGlobalIDs of ir.Module (ir/module.go): both walk a sequence of
   "named variables" with the same closure setName. *)
From Coq Require Import List Bool ZArith.
Import ListNotations.
Local Open Scope Z_scope.

Inductive outcome (A : Type) := Ok (a : A) | Err.
Arguments Ok {A}. Arguments Err {A}.

(* one entry of the walk: a parameter, a basic block, an instruction or a terminator *)
Record item := {
  it_named : bool;      (* has a non-empty name: IsUnnamed() = false *)
  it_id : Z;            (* the stored LocalID / GlobalID; 0 doubles as "unset" *)
  it_value : bool;      (* takes part in numbering: false for store/fence and for void call/invoke/callbr *)
}.

Definition set_id (x : item) (id : Z) : item :=
  {| it_named := it_named x; it_id := id; it_value := it_value x |}.

(* setName, threaded through the walk *)
Fixpoint assign (l : list item) (id : Z) : outcome (list item) :=
  match l with
  | [] => Ok []
  | x :: r =>
    if it_value x && negb (it_named x) then
      if negb (it_id x =? 0) && negb (id =? it_id x) then Err
      else match assign r (id + 1) with Ok r' => Ok (set_id x id :: r') | Err => Err end
    else match assign r id with Ok r' => Ok (x :: r') | Err => Err end
  end.

Definition assign_ids (l : list item) : outcome (list item) := assign l 0.

(* LLVM's rule, stated independently: the k-th unnamed value gets number k *)
Fixpoint llvm_number (l : list item) (k : Z) : list item :=
  match l with
  | [] => []
  | x :: r => if it_value x && negb (it_named x) then set_id x k :: llvm_number r (k + 1)
              else x :: llvm_number r k
  end.
