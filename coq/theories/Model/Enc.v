(* Model of internal/enc/enc.go (encoders) and of the decoders in
   asm/helper.go and asm/type.go.  Byte-level, no UTF-8 involved. *)
From Coq Require Import List Bool NArith ZArith.
From Coq Require Import Strings.Byte.
From LLIR Require Import Lib.Bytes Lib.Radix.
Import ListNotations.
Local Open Scope N_scope.

(* ---- character classes (the string constants of enc.go) ---- *)
Definition is_decimal (b : byte) : bool := isdigit b.
Definition is_upper (b : byte) : bool := (65 <=? bN b) && (bN b <=? 90).
Definition is_lower (b : byte) : bool := (97 <=? bN b) && (bN b <=? 122).
Definition is_alpha (b : byte) : bool := is_upper b || is_lower b.
(* head = alpha + "$-._" *)
Definition in_head (b : byte) : bool :=
  is_alpha b || (bN b =? 36) || (bN b =? 45) || (bN b =? 46) || (bN b =? 95).
(* tail = head + decimal *)
Definition in_tail (b : byte) : bool := in_head b || is_decimal b.
(* quotedIdent: printable ASCII except double quote and backslash *)
Definition in_quoted (b : byte) : bool :=
  (32 <=? bN b) && (bN b <=? 126) && negb (bN b =? 34) && negb (bN b =? 92).

(* ---- hexadecimal ---- *)
Definition hexdigit (n : N) : byte :=
  match Byte.of_N (if n <? 10 then 48 + n else 55 + n) with Some b => b | None => x00 end.
Definition unhex (b : byte) : option N :=
  let n := bN b in
  if (48 <=? n) && (n <=? 57) then Some (n - 48)
  else if (97 <=? n) && (n <=? 102) then Some (n - 97 + 10)
  else if (65 <=? n) && (n <=? 70) then Some (n - 65 + 10)
  else None.
Definition esc (b : byte) : bytes := [x5c; hexdigit (bN b / 16); hexdigit (bN b mod 16)].

(* ---- Escape / EscapeString / EscapeIdent ---- *)
Fixpoint escape (valid : byte -> bool) (s : bytes) : bytes :=
  match s with
  | [] => []
  | b :: r => if valid b then b :: escape valid r else esc b ++ escape valid r
  end.
Definition escape_string (s : bytes) : bytes := escape in_quoted s.
Definition quote (s : bytes) : bytes := x22 :: escape_string s ++ [x22].

Definition escape_ident (s : bytes) : bytes :=
  if forallb in_tail s then s else x22 :: escape in_quoted s ++ [x22].

(* ---- Unescape / Unquote ---- *)
Fixpoint unescape_fuel (fuel : nat) (s : bytes) : bytes :=
  match fuel with
  | O => []
  | S f =>
    match s with
    | [] => []
    | b :: r =>
      if bN b =? 92 then
        match r with
        | b1 :: r1 =>
          if bN b1 =? 92 then x5c :: unescape_fuel f r1
          else match r1 with
               | b2 :: r2 =>
                 match unhex b1, unhex b2 with
                 | Some h, Some l =>
                   match Byte.of_N (h * 16 + l) with
                   | Some c => c :: unescape_fuel f r2
                   | None => b :: unescape_fuel f r
                   end
                 | _, _ => b :: unescape_fuel f r
                 end
               | [] => b :: unescape_fuel f r
               end
        | [] => [b]
        end
      else b :: unescape_fuel f r
    end
  end.
Definition unescape (s : bytes) : bytes := unescape_fuel (length s) s.

Definition is_quoted (s : bytes) : bool :=
  match s with
  | b :: r => (bN b =? 34) && (match rev r with e :: _ => bN e =? 34 | [] => false end)
  | [] => false
  end.
(* asm.unquote: strip the quotes and unescape if quoted, identity otherwise *)
Definition unquote (s : bytes) : bytes :=
  if is_quoted s then unescape (removelast (tl s)) else s.

(* ---- strconv.ParseUint(s, 10, 64) / ParseInt(s, 10, 64), success and value ---- *)
(* digits only (no sign, no underscore), non-empty, value below 2^64 *)
Definition parse_uint64 (s : bytes) : option N :=
  match parse_dec_N s with
  | Some v => if v <? 2 ^ 64 then Some v else None
  | None => None
  end.
(* optional sign, digits, value in the int64 range *)
Definition parse_int64 (s : bytes) : option Z :=
  let body (sign : Z) (r : bytes) :=
    match parse_dec_N r with
    | Some v => let z := (sign * Z.of_N v)%Z in
                if ((- 2 ^ 63 <=? z) && (z <=? 2 ^ 63 - 1))%Z then Some z else None
    | None => None
    end in
  match s with
  | b :: r => if bN b =? 43 then body 1%Z r else if bN b =? 45 then body (-1)%Z r else body 1%Z s
  | [] => None
  end.

(* strconv.FormatInt(id, 10) for id >= 0 *)
Definition format_uint (n : N) : bytes := print_dec_N n.

(* ---- identifiers as the IR stores them ---- *)
Inductive ident := Name (s : bytes) | ID (n : Z).

(* enc.GlobalName / LocalName / LabelName / TypeName / ComdatName / MetadataName *)
Definition sigil_name (sigil : byte) (name : bytes) : bytes :=
  match parse_uint64 name with
  | Some _ => sigil :: x22 :: name ++ [x22]
  | None => sigil :: escape_ident name
  end.
Definition global_name := sigil_name x40.
Definition local_name := sigil_name x25.
Definition label_name (name : bytes) : bytes :=
  match parse_uint64 name with
  | Some _ => x22 :: name ++ [x22; x3a]
  | None => escape_ident name ++ [x3a]
  end.
Definition type_name (name : bytes) : bytes := x25 :: escape_ident name.
Definition comdat_name (name : bytes) : bytes := x24 :: escape_ident name.
(* panics on the empty name (name[0]) *)
Definition metadata_name (name : bytes) : option bytes :=
  match name with
  | [] => None
  | b :: r => if is_decimal b then Some (x21 :: x5c :: x33 :: b :: escape in_tail r)
              else Some (x21 :: escape in_tail name)
  end.
Definition global_id (n : N) : bytes := x40 :: format_uint n.
Definition local_id (n : N) : bytes := x25 :: format_uint n.
Definition label_id (n : N) : bytes := format_uint n ++ [x3a].

(* ir.GlobalIdent.Ident / LocalIdent.Ident: unnamed iff the name is empty *)
Definition global_ident_text (name : bytes) (id : N) : bytes :=
  match name with [] => global_id id | _ => global_name name end.
Definition local_ident_text (name : bytes) (id : N) : bytes :=
  match name with [] => local_id id | _ => local_name name end.

(* ---- decoders: asm.globalIdent / localIdent / labelIdent / comdatName / metadataName ---- *)
Definition ident_of_text (s : bytes) : ident :=
  match parse_int64 s with
  | Some z => if (0 <=? z)%Z then ID z else Name (unquote s)
  | None => Name (unquote s)
  end.
Definition decode_sigil (sigil : byte) (tok : bytes) : option ident :=
  match tok with
  | b :: r => if byte_eqb b sigil then Some (ident_of_text r) else None
  | [] => None
  end.
Definition decode_global := decode_sigil x40.
Definition decode_local := decode_sigil x25.
Definition decode_label (tok : bytes) : option ident :=
  match rev tok with
  | e :: r => if bN e =? 58 then Some (ident_of_text (rev r)) else None
  | [] => None
  end.
Definition decode_comdat (tok : bytes) : option bytes :=
  match tok with b :: r => if bN b =? 36 then Some (unquote r) else None | [] => None end.
Definition decode_metadata_name (tok : bytes) : option bytes :=
  match tok with b :: r => if bN b =? 33 then Some (unescape r) else None | [] => None end.

(* ir.LocalIdent.Name / GlobalIdent.Name, and asm.getTypeName: numeric names are re-quoted *)
Definition quoted_decimal (z : Z) : bytes :=
  x22 :: (if (z <? 0)%Z then x2d :: format_uint (Z.to_N (- z)) else format_uint (Z.to_N z)) ++ [x22].
Definition ident_Name (i : ident) : bytes :=
  match i with
  | ID n => format_uint (Z.to_N n)
  | Name s => match parse_int64 s with Some z => quoted_decimal z | None => s end
  end.
Definition get_type_name (i : ident) : bytes := ident_Name i.
Definition decode_type (tok : bytes) : option bytes := option_map get_type_name (decode_local tok).
