(* Generic model of value users (C15): an instruction or terminator is a list of
   operand cells plus a rendering that reads the cells.  Operands() returns one
   slot per cell; a slot is live when it addresses the cell itself (not a copy).
   The per-type tables saying which fields are cells come from Gen/Operands.v. *)
From Coq Require Import List Bool Arith.
Import ListNotations.

Section Users.
  Variable value : Type.
  Variable value_eqb : value -> value -> bool.
  Variable text : Type.
  Variable render_value : value -> text.
  (* the instruction's printer: a function of the rendered operands only *)
  Variable template : list text -> text.

  Record user := { cells : list value }.
  Definition print (u : user) : text := template (map render_value (cells u)).

  (* a slot of Operands(): index of the cell it addresses, and whether it is live *)
  Record slot := { s_cell : nat; s_live : bool }.

  Fixpoint set_nth (i : nat) (v : value) (l : list value) : list value :=
    match l, i with
    | [], _ => []
    | _ :: r, O => v :: r
    | x :: r, S i' => x :: set_nth i' v r
    end.

  (* *slot = v : changes the user only through a live slot *)
  Definition write (u : user) (s : slot) (v : value) : user :=
    if s_live s then {| cells := set_nth (s_cell s) v (cells u) |} else u.

  Definition operands_complete (u : user) (slots : list slot) : Prop :=
    map s_cell slots = seq 0 (length (cells u)).
  Definition operands_live (slots : list slot) : Prop := Forall (fun s => s_live s = true) slots.

  (* replace every use of [old] by [new] through the slots *)
  Definition replace_uses (u : user) (slots : list slot) (old new : value) : user :=
    fold_left (fun acc s => match nth_error (cells acc) (s_cell s) with
                            | Some x => if value_eqb x old then write acc s new else acc
                            | None => acc end) slots u.
End Users.
