(* Generic model of value users (C15): an instruction or terminator is a list of
   operand cells plus a rendering that reads the cells.  Operands() returns one
   slot per cell; a slot is live when it addresses the cell itself (not a copy).
   The per-type tables saying which fields are cells come from Gen/Operands.v. *)
From Coq Require Import List Bool Arith.
Import ListNotations.

Section Users.
  Variable value : Type.
  Variable value_eqb : value -> value -> bool.
  Variable text : Type.
  Variable render_value : value -> text.
  (* the instruction's printer: a function of the rendered operands only *)
  Variable template : list text -> text.

  Record user := { cells : list value }.
  Definition print (u : user) : text := template (map render_value (cells u)).

  (* a slot of Operands(): index of the cell it addresses, and whether it is live *)
  Record slot := { s_cell : nat; s_live : bool }.

  Fixpoint set_nth (i : nat) (v : value) (l : list value) : list value :=
    match l, i with
    | [], _ => []
    | _ :: r, O => v :: r
    | x :: r, S i' => x :: set_nth i' v r
    end.

  (* *slot = v : changes the user only through a live slot *)
  Definition write (u : user) (s : slot) (v : value) : user :=
    if s_live s then {| cells := set_nth (s_cell s) v (cells u) |} else u.

  Definition operands_complete (u : user) (slots : list slot) : Prop :=
    map s_cell slots = seq 0 (length (cells u)).
  Definition operands_live (slots : list slot) : Prop := Forall (fun s => s_live s = true) slots.

  (* replace every use of [old] by [new] through the slots *)
  Definition replace_uses (u : user) (slots : list slot) (old new : value) : user :=
    fold_left (fun acc s => match nth_error (cells acc) (s_cell s) with
                            | Some x => if value_eqb x old then write acc s new else acc
                            | None => acc end) slots u.
End Users.

(* Terminators with branch targets: Succs() caches the successor list in the Successors field on the first
   call (`if term.Successors == nil`), a write through an operand slot changes the target cell only. *)
Section Succs.
  Variable block : Type.
  Record term := { t_targets : list block; t_cache : option (list block) }.
  (* Succs(): the cached list if there is one, else the targets, which are then cached *)
  Definition succs (t : term) : list block * term :=
    match t_cache t with
    | Some c => (c, t)
    | None => (t_targets t, {| t_targets := t_targets t; t_cache := Some (t_targets t) |})
    end.
  (* *slot = b for the slot of target i *)
  Definition write_target (t : term) (i : nat) (b : block) : term :=
    {| t_targets := set_nth block i b (t_targets t); t_cache := t_cache t |}.
  Inductive term_op := TSuccs | TWrite (i : nat) (b : block).
  (* a history of queries and writes; the outputs of the queries, oldest first *)
  Fixpoint trun (h : list term_op) (t : term) : list (list block) * term :=
    match h with
    | [] => ([], t)
    | TSuccs :: r => let '(o, t1) := succs t in let '(os, t2) := trun r t1 in (o :: os, t2)
    | TWrite i b :: r => trun r (write_target t i b)
    end.
End Succs.
