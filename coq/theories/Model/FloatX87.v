(* x86_fp80 (0xK literals): ir/constant/const_float.go with github.com/mewmew/float/float80x86
   (Float.Big for reading, NewFromBig for printing).  The format keeps its
   integer bit: a literal is a sign, a 15-bit exponent field and a 64-bit
   significand.  The value in the middle is the same fval as for the IEEE
   interchange formats. *)
From Coq Require Import ZArith Bool.
From LLIR Require Import Model.FloatBits.
Local Open Scope Z_scope.

Definition bias80 : Z := 16383.
Definition int_bit : Z := 2 ^ 63.
Definition qnan80 : Z := 0xBFFFFFFFFFFFFFFF.

(* Float.Big: value = lead.frac * 2^(exp - bias), exponent -16382 when the field is 0 *)
Definition decode80 (s : bool) (E m : Z) : fval :=
  if E =? 0x7FFF then (if m =? int_bit then FInf s else FNaN s)
  else if E =? 0 then match m with Zpos p => norm s p (-16382 - 63) | _ => FZero s end
  else match m with Zpos p => norm s p (E - bias80 - 63) | _ => FZero s end.

(* NewFromBig; None where it reports an inexact result (const_float.go then logs a complaint) *)
Definition encode80 (v : fval) : option (bool * Z * Z) :=
  match v with
  | FZero s => Some (s, 0, 0)
  | FInf s => Some (s, 0x7FFF, int_bit)
  | FNaN s => Some (s, 0x7FFF, qnan80)
  | FFin s m e =>
    let top := e + Z.log2 (Zpos m) in
    let exp := top + bias80 in
    if exp <=? 0 then
      if exp <=? -63 then None
      else Some (s, 0, (Zpos m * 2 ^ (e + 16382 + 63)) mod 2 ^ 63)
    else if 0x7FFF <? exp then None
    else if e <? top - 63 then None                      (* more than 64 significant bits *)
    else Some (s, exp, Zpos m * 2 ^ (63 - Z.log2 (Zpos m)))
  end.

(* the encodings LLVM 14 itself prints *)
Definition canonical80 (E m : Z) : Prop :=
  (E = 0 /\ 0 <= m < int_bit) \/ (0 < E < 0x7FFF /\ int_bit <= m < 2 ^ 64) \/ (E = 0x7FFF /\ m = int_bit).

(* LLVM (APFloat::initFromF80LongDoubleAPInt): which encodings denote a NaN *)
Definition llvm_is_nan80 (E m : Z) : bool :=
  ((E =? 0x7FFF) && negb (m =? int_bit)) || (negb (E =? 0x7FFF) && negb (E =? 0) && (m <? int_bit)).
Definition is_nan (v : fval) : bool := match v with FNaN _ => true | _ => false end.
(* exponent field neither 0 nor all ones, integer bit clear *)
Definition unnormal80 (E m : Z) : bool := negb (E =? 0x7FFF) && negb (E =? 0) && (m <? int_bit).
