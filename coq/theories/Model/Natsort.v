(* Model of internal/natsort/natsort.go: func Less(str1, str2 string) bool.
   The Go loop keeps two indices idx1, idx2; the model keeps, for each string,
   the number of bytes consumed (the index) and the remaining suffix. *)
From Coq Require Import List Bool Arith NArith.
From Coq Require Import Strings.Byte.
From LLIR Require Import Lib.Bytes.
Import ListNotations.

(* for ; idx < len(str) && str[idx] == '0'; idx++ {}  -- returns (#zeros, rest) *)
Fixpoint eat_zeros (s : bytes) : nat * bytes :=
  match s with
  | c :: r => if byte_eqb c x30 then let '(n, r') := eat_zeros r in (S n, r') else (0, s)
  | [] => (0, s)
  end.

(* for ; idx < len(str) && isdigit(str[idx]); idx++ {}  -- returns (digits, rest) *)
Fixpoint eat_digits (s : bytes) : bytes * bytes :=
  match s with
  | b :: r => if isdigit b then let '(d, r') := eat_digits r in (b :: d, r') else ([], s)
  | [] => ([], [])
  end.

Fixpoint less_go (fuel : nat) (n1 : nat) (s1 : bytes) (n2 : nat) (s2 : bytes) : bool :=
  match fuel with
  | O => false   (* unreachable: see Proofs.NatsortProofs.less_fuel *)
  | S fuel' =>
    match s1, s2 with
    | c1 :: s1', c2 :: s2' =>
      if isdigit c1 && isdigit c2 then
        let '(z1, r1) := eat_zeros s1 in
        let '(z2, r2) := eat_zeros s2 in
        let nonZero1 := n1 + z1 in
        let nonZero2 := n2 + z2 in
        let '(d1, t1) := eat_digits r1 in
        let '(d2, t2) := eat_digits r2 in
        if negb (length d1 =? length d2) then length d1 <? length d2
        else if negb (bytes_eqb d1 d2) then bytes_ltb d1 d2
        else if negb (nonZero1 =? nonZero2) then nonZero1 <? nonZero2
        else less_go fuel' (nonZero1 + length d1) t1 (nonZero2 + length d2) t2
      else
        if negb (byte_eqb c1 c2) then byte_ltb c1 c2
        else less_go fuel' (S n1) s1' (S n2) s2'
    | _, _ => (n1 + length s1) <? (n2 + length s2)     (* return len(str1) < len(str2) *)
    end
  end.

Definition less (s t : bytes) : bool := less_go (S (length s + length t)) 0 s 0 t.

(* natsort.Strings = sort.Sort with Less: any function returning a sorted
   permutation; the executable stand-in is insertion sort. *)
Fixpoint insert (x : bytes) (l : list bytes) : list bytes :=
  match l with
  | [] => [x]
  | y :: r => if less y x then y :: insert x r else x :: l
  end.
Definition sort_strings (l : list bytes) : list bytes := fold_right insert [] l.
