(* Executable reading of the regenerated enum tables (Gen/Enums.v): String() and FromString of an
   enumerated type.  No proofs here: the OCaml driver extracts these definitions. *)
From Coq Require Import List ZArith Bool.
From Coq Require Import Strings.Byte.
Import ListNotations.
From LLIR Require Import Gen.Enums.
Local Open Scope Z_scope.

Fixpoint bytes_eqb (a b : list byte) : bool :=
  match a, b with
  | [], [] => true
  | x :: a', y :: b' => Byte.eqb x y && bytes_eqb a' b'
  | _, _ => false
  end.

Fixpoint assocZ (v : Z) (l : list (Z * list byte)) : option (list byte) :=
  match l with [] => None | (k, s) :: r => if k =? v then Some s else assocZ v r end.
Fixpoint assocS (s : list byte) (l : list (list byte * Z)) : option Z :=
  match l with [] => None | (k, v) :: r => if bytes_eqb k s then Some v else assocS s r end.

Inductive outcome := Ok (v : Z) | Panic.
Definition to_string (t : enum_tables) (v : Z) : option (list byte) := assocZ v (e_string t).  (* None = the T(%d) fallback *)
Definition from_string (t : enum_tables) (s : list byte) : outcome :=
  match s with
  | [] => if e_empty0 t then Ok 0 else match assocS s (e_from t) with Some v => Ok v | None => Panic end
  | _ => match assocS s (e_from t) with Some v => Ok v | None => Panic end
  end.

