(* Bytes: Go strings and byte slices are modelled as [list byte]. *)
From Coq Require Import List Bool NArith Lia.
From Coq Require Import Strings.Byte.
Import ListNotations.

Definition bytes := list byte.

(* numeric value of a byte, 0..255 *)
Definition bN (b : byte) : N := Byte.to_N b.

Lemma bN_inj a b : bN a = bN b -> a = b.
Proof.
  unfold bN. intros H.
  assert (Byte.of_N (Byte.to_N a) = Byte.of_N (Byte.to_N b)) as E by (rewrite H; reflexivity).
  rewrite !Byte.of_to_N in E. congruence.
Qed.

Lemma bN_lt_256 b : (bN b < 256)%N.
Proof. unfold bN. pose proof (Byte.to_N_bounded b). lia. Qed.

Definition byte_eqb (a b : byte) : bool := N.eqb (bN a) (bN b).
Definition byte_ltb (a b : byte) : bool := N.ltb (bN a) (bN b).
Definition byte_leb (a b : byte) : bool := N.leb (bN a) (bN b).

Lemma byte_eqb_spec a b : byte_eqb a b = true <-> a = b.
Proof.
  unfold byte_eqb. rewrite N.eqb_eq. split; [apply bN_inj | intros ->; reflexivity].
Qed.
Lemma byte_eqb_refl a : byte_eqb a a = true.
Proof. apply byte_eqb_spec; reflexivity. Qed.
Lemma byte_eqb_neq a b : byte_eqb a b = false <-> a <> b.
Proof.
  split.
  - intros H E. apply byte_eqb_spec in E. congruence.
  - intros H. destruct (byte_eqb a b) eqn:E; [|reflexivity]. apply byte_eqb_spec in E. contradiction.
Qed.
Lemma byte_eqb_sym a b : byte_eqb a b = byte_eqb b a.
Proof. unfold byte_eqb. apply N.eqb_sym. Qed.

(* ASCII digits *)
Definition isdigit (b : byte) : bool := (N.leb 48 (bN b)) && (N.leb (bN b) 57).

(* equality and lexicographic order (Go string comparison) on byte strings *)
Fixpoint bytes_eqb (a b : bytes) : bool :=
  match a, b with
  | [], [] => true
  | x :: a', y :: b' => byte_eqb x y && bytes_eqb a' b'
  | _, _ => false
  end.

Lemma bytes_eqb_spec a : forall b, bytes_eqb a b = true <-> a = b.
Proof.
  induction a as [|x a IH]; intros [|y b]; cbn; split; try congruence; try reflexivity.
  - intros H. apply andb_prop in H as [H1 H2]. apply byte_eqb_spec in H1. apply IH in H2. congruence.
  - intros [= -> ->]. rewrite byte_eqb_refl. cbn. apply IH. reflexivity.
Qed.
Lemma bytes_eqb_refl a : bytes_eqb a a = true.
Proof. apply bytes_eqb_spec; reflexivity. Qed.
Lemma bytes_eqb_neq a b : bytes_eqb a b = false <-> a <> b.
Proof.
  split.
  - intros H E. apply bytes_eqb_spec in E. congruence.
  - intros H. destruct (bytes_eqb a b) eqn:E; [|reflexivity]. apply bytes_eqb_spec in E. contradiction.
Qed.

Fixpoint bytes_ltb (a b : bytes) : bool :=
  match a, b with
  | [], [] => false
  | [], _ :: _ => true
  | _ :: _, [] => false
  | x :: a', y :: b' => if byte_ltb x y then true else if byte_ltb y x then false else bytes_ltb a' b'
  end.

Lemma byte_ltb_irrefl a : byte_ltb a a = false.
Proof. unfold byte_ltb. apply N.ltb_irrefl. Qed.

Lemma byte_trichotomy a b : byte_ltb a b = false -> byte_ltb b a = false -> a = b.
Proof.
  unfold byte_ltb. rewrite !N.ltb_ge. intros H1 H2. apply bN_inj. lia.
Qed.

Lemma bytes_ltb_irrefl a : bytes_ltb a a = false.
Proof. induction a as [|x a IH]; cbn; [reflexivity|]. rewrite byte_ltb_irrefl. exact IH. Qed.

Lemma bytes_ltb_trans a : forall b c, bytes_ltb a b = true -> bytes_ltb b c = true -> bytes_ltb a c = true.
Proof.
  induction a as [|x a IH]; intros [|y b] [|z c]; cbn; try discriminate; try reflexivity.
  unfold byte_ltb.
  destruct (N.ltb_spec (bN x) (bN y)); destruct (N.ltb_spec (bN y) (bN x)); try lia;
  destruct (N.ltb_spec (bN y) (bN z)); destruct (N.ltb_spec (bN z) (bN y)); try lia;
  destruct (N.ltb_spec (bN x) (bN z)); destruct (N.ltb_spec (bN z) (bN x)); try lia;
  try discriminate; try reflexivity.
  intros; eapply IH; eassumption.
Qed.

Lemma bytes_ltb_total a : forall b, a <> b -> bytes_ltb a b = true \/ bytes_ltb b a = true.
Proof.
  induction a as [|x a IH]; intros [|y b] Hne; cbn; auto; try congruence.
  destruct (byte_ltb x y) eqn:E1; destruct (byte_ltb y x) eqn:E2; auto.
  pose proof (byte_trichotomy _ _ E1 E2); subst. apply IH. congruence.
Qed.

Lemma isdigit_range c : isdigit c = true <-> (48 <= bN c <= 57)%N.
Proof. unfold isdigit. rewrite andb_true_iff, !N.leb_le. tauto. Qed.
