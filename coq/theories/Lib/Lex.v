(* Lexicographic extension of a strict total order to lists, with the
   "proper prefix is smaller" rule; and uniqueness of sorted permutations. *)
From Coq Require Import List Bool Sorting.Sorted Sorting.Permutation Lia.
Import ListNotations.

Section Lex.
  Variable A : Type.
  Variable eqb ltb : A -> A -> bool.
  Hypothesis eqb_spec : forall x y, eqb x y = true <-> x = y.
  Hypothesis lt_irrefl : forall x, ltb x x = false.
  Hypothesis lt_trans : forall x y z, ltb x y = true -> ltb y z = true -> ltb x z = true.
  Hypothesis lt_total : forall x y, x <> y -> ltb x y = true \/ ltb y x = true.

  Fixpoint lexb (a b : list A) : bool :=
    match a, b with
    | [], [] => false
    | [], _ :: _ => true
    | _ :: _, [] => false
    | x :: a', y :: b' => if eqb x y then lexb a' b' else ltb x y
    end.

  Lemma eqb_refl x : eqb x x = true. Proof. apply eqb_spec; reflexivity. Qed.

  Lemma lt_asym x y : ltb x y = true -> ltb y x = false.
  Proof.
    intros H. destruct (ltb y x) eqn:E; [|reflexivity].
    pose proof (lt_trans _ _ _ H E) as K. rewrite lt_irrefl in K. discriminate.
  Qed.

  Lemma lexb_irrefl a : lexb a a = false.
  Proof. induction a as [|x a IH]; cbn; [reflexivity|]. rewrite eqb_refl. exact IH. Qed.

  Lemma lexb_trans a : forall b c, lexb a b = true -> lexb b c = true -> lexb a c = true.
  Proof.
    induction a as [|x a IH]; intros [|y b] [|z c]; cbn; try discriminate; try reflexivity.
    destruct (eqb x y) eqn:Exy; destruct (eqb y z) eqn:Eyz; intros H1 H2.
    - apply eqb_spec in Exy; apply eqb_spec in Eyz; subst. rewrite eqb_refl. eauto.
    - apply eqb_spec in Exy; subst. rewrite Eyz. exact H2.
    - apply eqb_spec in Eyz; subst. rewrite Exy. exact H1.
    - destruct (eqb x z) eqn:Exz.
      + apply eqb_spec in Exz; subst. rewrite (lt_asym _ _ H1) in H2. discriminate.
      + eapply lt_trans; eassumption.
  Qed.

  Lemma lexb_total a : forall b, a <> b -> lexb a b = true \/ lexb b a = true.
  Proof.
    induction a as [|x a IH]; intros [|y b] Hne; cbn; auto; try congruence.
    destruct (eqb x y) eqn:Exy.
    - apply eqb_spec in Exy; subst. rewrite eqb_refl. apply IH. congruence.
    - assert (eqb y x = false) as ->.
      { destruct (eqb y x) eqn:E; [|reflexivity]. apply eqb_spec in E; subst.
        rewrite eqb_refl in Exy. discriminate. }
      apply lt_total. intros ->. rewrite eqb_refl in Exy. discriminate.
  Qed.

  Lemma lexb_asym a b : lexb a b = true -> lexb b a = false.
  Proof.
    intros H. destruct (lexb b a) eqn:E; [|reflexivity].
    pose proof (lexb_trans _ _ _ H E) as K. rewrite lexb_irrefl in K. discriminate.
  Qed.
End Lex.

(* Two lists sorted by the same strict order that are permutations of one
   another are equal: the output of any correct sort is determined by the
   multiset of its input. *)
Section SortedUnique.
  Variable A : Type.
  Variable lt : A -> A -> Prop.
  Hypothesis lt_irrefl : forall x, ~ lt x x.
  Hypothesis lt_trans : forall x y z, lt x y -> lt y z -> lt x z.

  Lemma sorted_head_min x l : StronglySorted lt (x :: l) -> forall y, In y l -> lt x y.
  Proof. intros H y Hy. inversion H; subst. rewrite Forall_forall in *. auto. Qed.

  Lemma sorted_perm_unique l : forall l',
    StronglySorted lt l -> StronglySorted lt l' -> Permutation l l' -> l = l'.
  Proof.
    induction l as [|x l IH]; intros l' Hs Hs' Hp.
    - apply Permutation_nil in Hp. congruence.
    - destruct l' as [|y l'].
      + apply Permutation_sym, Permutation_nil in Hp. discriminate.
      + assert (x = y) as ->.
        { assert (In x (y :: l')) as Hx by (eapply Permutation_in; [exact Hp | left; reflexivity]).
          assert (In y (x :: l)) as Hy by (eapply Permutation_in; [apply Permutation_sym; exact Hp | left; reflexivity]).
          destruct Hx as [->|Hx]; [reflexivity|]. destruct Hy as [->|Hy]; [reflexivity|].
          exfalso. apply (lt_irrefl x). eapply lt_trans.
          - eapply sorted_head_min; [exact Hs | exact Hy].
          - eapply sorted_head_min; [exact Hs' | exact Hx]. }
        f_equal. apply IH.
        * inversion Hs; assumption.
        * inversion Hs'; assumption.
        * eapply Permutation_cons_inv; exact Hp.
  Qed.
End SortedUnique.
