(* Decimal and hexadecimal text of natural numbers as byte strings, on top of
   the standard library's Decimal/Hexadecimal positional representations. *)
From Coq Require Import List NArith ZArith Lia Decimal Hexadecimal DecimalN HexadecimalN.
From Coq Require Import Strings.Byte.
From LLIR Require Import Lib.Bytes.
Import ListNotations.

(* ---- decimal ---- *)
Fixpoint dec_bytes (u : Decimal.uint) : bytes :=
  match u with
  | Decimal.Nil => []
  | Decimal.D0 r => x30 :: dec_bytes r | Decimal.D1 r => x31 :: dec_bytes r
  | Decimal.D2 r => x32 :: dec_bytes r | Decimal.D3 r => x33 :: dec_bytes r
  | Decimal.D4 r => x34 :: dec_bytes r | Decimal.D5 r => x35 :: dec_bytes r
  | Decimal.D6 r => x36 :: dec_bytes r | Decimal.D7 r => x37 :: dec_bytes r
  | Decimal.D8 r => x38 :: dec_bytes r | Decimal.D9 r => x39 :: dec_bytes r
  end.
Definition dec_cons (b : byte) (r : Decimal.uint) : option Decimal.uint :=
  match b with
  | x30 => Some (Decimal.D0 r) | x31 => Some (Decimal.D1 r) | x32 => Some (Decimal.D2 r)
  | x33 => Some (Decimal.D3 r) | x34 => Some (Decimal.D4 r) | x35 => Some (Decimal.D5 r)
  | x36 => Some (Decimal.D6 r) | x37 => Some (Decimal.D7 r) | x38 => Some (Decimal.D8 r)
  | x39 => Some (Decimal.D9 r) | _ => None
  end.
Fixpoint parse_dec (s : bytes) : option Decimal.uint :=
  match s with
  | [] => Some Decimal.Nil
  | b :: r => match parse_dec r with Some u => dec_cons b u | None => None end
  end.
Lemma parse_dec_bytes u : parse_dec (dec_bytes u) = Some u.
Proof. induction u; cbn; try reflexivity; rewrite IHu; reflexivity. Qed.

Definition print_dec_N (n : N) : bytes := dec_bytes (N.to_uint n).
Definition parse_dec_N (s : bytes) : option N :=
  match s with [] => None | _ => option_map N.of_uint (parse_dec s) end.

Lemma dec_bytes_nonnil u : u <> Decimal.Nil -> dec_bytes u <> [].
Proof. destruct u; cbn; congruence. Qed.

Lemma to_uint_nonnil n : N.to_uint n <> Decimal.Nil.
Proof.
  intros E. pose proof (DecimalN.Unsigned.of_to n) as H. rewrite E in H. cbn in H. subst n. discriminate.
Qed.

Theorem parse_print_dec n : parse_dec_N (print_dec_N n) = Some n.
Proof.
  unfold parse_dec_N, print_dec_N. destruct (dec_bytes (N.to_uint n)) eqn:E.
  - exfalso. exact (dec_bytes_nonnil _ (to_uint_nonnil n) E).
  - rewrite <- E, parse_dec_bytes. cbn. f_equal. apply DecimalN.Unsigned.of_to.
Qed.

(* ---- hexadecimal: printed in upper case (strings.ToUpper(x.Text(16))), read in both cases ---- *)
Fixpoint hex_bytes (u : Hexadecimal.uint) : bytes :=
  match u with
  | Hexadecimal.Nil => []
  | Hexadecimal.D0 r => x30 :: hex_bytes r | Hexadecimal.D1 r => x31 :: hex_bytes r
  | Hexadecimal.D2 r => x32 :: hex_bytes r | Hexadecimal.D3 r => x33 :: hex_bytes r
  | Hexadecimal.D4 r => x34 :: hex_bytes r | Hexadecimal.D5 r => x35 :: hex_bytes r
  | Hexadecimal.D6 r => x36 :: hex_bytes r | Hexadecimal.D7 r => x37 :: hex_bytes r
  | Hexadecimal.D8 r => x38 :: hex_bytes r | Hexadecimal.D9 r => x39 :: hex_bytes r
  | Hexadecimal.Da r => x41 :: hex_bytes r | Hexadecimal.Db r => x42 :: hex_bytes r
  | Hexadecimal.Dc r => x43 :: hex_bytes r | Hexadecimal.Dd r => x44 :: hex_bytes r
  | Hexadecimal.De r => x45 :: hex_bytes r | Hexadecimal.Df r => x46 :: hex_bytes r
  end.
Definition hex_cons (b : byte) (r : Hexadecimal.uint) : option Hexadecimal.uint :=
  match b with
  | x30 => Some (Hexadecimal.D0 r) | x31 => Some (Hexadecimal.D1 r) | x32 => Some (Hexadecimal.D2 r)
  | x33 => Some (Hexadecimal.D3 r) | x34 => Some (Hexadecimal.D4 r) | x35 => Some (Hexadecimal.D5 r)
  | x36 => Some (Hexadecimal.D6 r) | x37 => Some (Hexadecimal.D7 r) | x38 => Some (Hexadecimal.D8 r)
  | x39 => Some (Hexadecimal.D9 r)
  | x41 | x61 => Some (Hexadecimal.Da r) | x42 | x62 => Some (Hexadecimal.Db r)
  | x43 | x63 => Some (Hexadecimal.Dc r) | x44 | x64 => Some (Hexadecimal.Dd r)
  | x45 | x65 => Some (Hexadecimal.De r) | x46 | x66 => Some (Hexadecimal.Df r)
  | _ => None
  end.
Fixpoint parse_hex (s : bytes) : option Hexadecimal.uint :=
  match s with
  | [] => Some Hexadecimal.Nil
  | b :: r => match parse_hex r with Some u => hex_cons b u | None => None end
  end.
Lemma parse_hex_bytes u : parse_hex (hex_bytes u) = Some u.
Proof. induction u; cbn; try reflexivity; rewrite IHu; reflexivity. Qed.

Definition print_hex_N (n : N) : bytes := hex_bytes (N.to_hex_uint n).
Definition parse_hex_N (s : bytes) : option N :=
  match s with [] => None | _ => option_map N.of_hex_uint (parse_hex s) end.

Lemma to_hex_uint_nonnil n : N.to_hex_uint n <> Hexadecimal.Nil.
Proof.
  intros E. pose proof (HexadecimalN.Unsigned.of_to n) as H. rewrite E in H. cbn in H. subst n. discriminate.
Qed.

Theorem parse_print_hex n : parse_hex_N (print_hex_N n) = Some n.
Proof.
  unfold parse_hex_N, print_hex_N. destruct (hex_bytes (N.to_hex_uint n)) eqn:E.
  - exfalso. destruct (N.to_hex_uint n) eqn:U; cbn in E; try discriminate. exact (to_hex_uint_nonnil n U).
  - rewrite <- E, parse_hex_bytes. cbn. f_equal. apply HexadecimalN.Unsigned.of_to.
Qed.

(* first byte of a printed number is a digit (upper-case letter for hex) *)
Lemma print_dec_head n : exists b r, print_dec_N n = b :: r /\ isdigit b = true.
Proof.
  unfold print_dec_N. pose proof (to_uint_nonnil n). destruct (N.to_uint n); try congruence;
    cbn; eexists; eexists; split; reflexivity.
Qed.
