; class=di_default_not_zero_value
!llvm.dbg.cu = !{!1}
!0 = !DIFile(filename: "a.c", directory: "/")
!1 = distinct !DICompileUnit(language: DW_LANG_C99, file: !0, producer: "x", isOptimized: false, runtimeVersion: 0, emissionKind: FullDebug, splitDebugInlining: false)
!2 = distinct !DIGlobalVariable(name: "g", scope: !1, file: !0, line: 1, type: !3, isLocal: true, isDefinition: false)
!3 = !DIBasicType(name: "int", size: 32, encoding: DW_ATE_signed)
!4 = !DIDerivedType(tag: DW_TAG_pointer_type, baseType: !3, size: 64, dwarfAddressSpace: 0)
