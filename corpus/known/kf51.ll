; class=sanitizer_keywords_last_wins
@g = global i32 0, no_sanitize_address, sanitize_memtag
@h = global i32 1, no_sanitize_address, no_sanitize_hwaddress, sanitize_address_dyninit, sanitize_memtag
