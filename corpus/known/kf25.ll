; class=freeze_with_metadata
define i32 @f(i32 %x) {
	%y = freeze i32 %x, !foo !0
	ret i32 %y
}
!0 = !{}
