; class=type_alias_copy
%b = type { i32 }
%a = type %b
@g = external global %a
