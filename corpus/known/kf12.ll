; class=scalable_typedef
%v = type <vscale x 2 x i32>
@g = external global %v
