; class=scalable_vector_operand
define <vscale x 4 x i1> @f(<vscale x 4 x i32> %a, <vscale x 4 x i32> %b) {
	%c = icmp eq <vscale x 4 x i32> %a, %b
	ret <vscale x 4 x i1> %c
}
