; class=lead_digit_name
@"2abc" = global i32 0
