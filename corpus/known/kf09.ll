; class=constexpr_index
@g = global [4 x i32] zeroinitializer
define i32* @f() {
	%p = getelementptr [4 x i32], [4 x i32]* @g, i64 0, i64 add (i64 1, i64 2)
	ret i32* %p
}
