; class=nan_payload_nonzero
@d = global double 0x7FF0000000000001
