; class=minus_zero_name
@"-0" = global i32 1
