; class=di_field_kind_panic
!0 = !{}
!1 = distinct !DICompileUnit(language: DW_LANG_C, file: !0)
