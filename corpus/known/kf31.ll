; class=cc_one
declare cc 1 void @f()
