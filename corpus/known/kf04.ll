; class=numeric_name
%"-5" = type { i32 }
@g = external global %"-5"
