; class=i1_out_of_01
define i1 @f() {
	ret i1 -1
}
