; class=md_bool_default_true
!llvm.dbg.cu = !{!0}
!0 = distinct !DICompileUnit(language: DW_LANG_C99, file: !1, producer: "clang", isOptimized: false, runtimeVersion: 0, emissionKind: FullDebug, splitDebugInlining: false, nameTableKind: None)
!1 = !DIFile(filename: "a.c", directory: "/")
