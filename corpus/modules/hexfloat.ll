@a = global half 0xH4400
@b = global half 0xH2E66
