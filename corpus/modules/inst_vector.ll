define void @f() {
0:
	%1 = extractelement <2 x i32> <i32 1, i32 2>, i64 1
	%2 = insertelement <2 x i32> <i32 4, i32 6>, i32 5, i64 1
	%3 = shufflevector <2 x i32> <i32 7, i32 8>, <2 x i32> <i32 9, i32 10>, <4 x i32> <i32 3, i32 2, i32 1, i32 0>
	ret void
}
