@ulg = global i32 0
@ulp = global i32* @ulg
@ulq = global i32* @ulg

define void @ulf(i1 %c) {
entry:
	br i1 %c, label %bb, label %bb
bb:
	ret void
}

define i32 @ulh(i32 %x) {
	%a = add i32 %x, %x
	%b = mul i32 %a, %a
	ret i32 %b
	uselistorder i32 %a, { 1, 0 }
}

uselistorder i32* @ulg, { 1, 0 }
uselistorder_bb @ulf, %bb, { 1, 0 }
