define void @f() {
0:
	%1 = shl i32 1, 2
	%2 = lshr i32 3, 4
	%3 = ashr i32 5, 6
	%4 = and i32 7, 8
	%5 = or i32 9, 10
	%6 = xor i32 11, 12
	ret void
}
