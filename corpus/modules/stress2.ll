; ModuleID = '/tmp/autogen.bc'
source_filename = "/tmp/autogen.bc"

define void @autogen_SD2(i8* %0, i32* %1, i64* %2, i32 %3, i64 %4, i8 %5) {
BB:
  %A4 = alloca <8 x i64>, align 64
  %A3 = alloca <8 x double>, align 64
  %A2 = alloca <8 x double>, align 64
  %A1 = alloca <2 x i32>, align 8
  %A = alloca <2 x float>, align 8
  %L = load i8, i8* %0, align 1
  store <2 x i32> <i32 0, i32 -1>, <2 x i32>* %A1, align 8
  %E = extractelement <4 x i8> zeroinitializer, i32 1
  %Shuff = shufflevector <4 x i8> zeroinitializer, <4 x i8> zeroinitializer, <4 x i32> <i32 undef, i32 2, i32 4, i32 6>
  %I = insertelement <4 x i8> zeroinitializer, i8 119, i32 2
  %B = xor i64 165167, 0
  %ZE = zext i8 -85 to i32
  %Sl = select i1 true, i64 %B, i64 %B
  %Cmp = icmp uge i64 %B, %B
  br label %CF93

CF93:                                             ; preds = %BB
  %L5 = load i8, i8* %0, align 1
  store i8 119, i8* %0, align 1
  %E6 = extractelement <4 x i8> zeroinitializer, i32 0
  %Shuff7 = shufflevector <4 x i8> zeroinitializer, <4 x i8> %Shuff, <4 x i32> <i32 undef, i32 1, i32 3, i32 undef>
  %I8 = insertelement <4 x i8> zeroinitializer, i8 119, i32 1
  %B9 = and i8 %L5, 19
  %ZE10 = zext <8 x i1> zeroinitializer to <8 x i64>
  %Sl11 = select i1 true, <4 x i8> %Shuff, <4 x i8> %Shuff
  %Cmp12 = icmp slt i8 123, 19
  br label %CF

CF:                                               ; preds = %CF, %CF99, %CF96, %CF101, %CF95, %CF93
  %L13 = load i8, i8* %0, align 1
  store i8 119, i8* %0, align 1
  %E14 = extractelement <4 x i8> %Shuff7, i32 3
  %Shuff15 = shufflevector <4 x i8> %Shuff, <4 x i8> zeroinitializer, <4 x i32> <i32 2, i32 4, i32 6, i32 undef>
  %I16 = insertelement <4 x i8> zeroinitializer, i8 -85, i32 0
  %B17 = urem i8 %E14, %L
  %Se = sext <4 x i8> %Sl11 to <4 x i16>
  %Sl18 = select i1 true, i16 -1, i16 -1
  %Cmp19 = icmp sge i64 %B, %4
  br i1 %Cmp19, label %CF, label %CF99

CF99:                                             ; preds = %CF
  %L20 = load i8, i8* %0, align 1
  store i8 %L5, i8* %0, align 1
  %E21 = extractelement <4 x i8> zeroinitializer, i32 1
  %Shuff22 = shufflevector <8 x i64> %ZE10, <8 x i64> %ZE10, <8 x i32> <i32 4, i32 undef, i32 8, i32 10, i32 12, i32 14, i32 undef, i32 2>
  %I23 = insertelement <4 x i8> zeroinitializer, i8 19, i32 2
  %B24 = srem i8 19, %5
  %Tr = trunc i8 119 to i1
  br i1 %Tr, label %CF, label %CF96

CF96:                                             ; preds = %CF99
  %Sl25 = select i1 %Cmp, i1 %Cmp12, i1 %Cmp
  br i1 %Sl25, label %CF, label %CF92

CF92:                                             ; preds = %CF92, %CF96
  %L26 = load i8, i8* %0, align 1
  store i8 %L, i8* %0, align 1
  %E27 = extractelement <4 x i8> zeroinitializer, i32 2
  %Shuff28 = shufflevector <4 x i8> zeroinitializer, <4 x i8> zeroinitializer, <4 x i32> <i32 1, i32 3, i32 undef, i32 7>
  %I29 = insertelement <4 x i8> zeroinitializer, i8 -85, i32 3
  %B30 = urem <8 x i64> %ZE10, %ZE10
  %Sl31 = select i1 true, i16 -17137, i16 %Sl18
  %Cmp32 = icmp ult <4 x i8> %Sl11, %I16
  %L33 = load i64, i64* %2, align 4
  store i8 -85, i8* %0, align 1
  %E34 = extractelement <4 x i8> zeroinitializer, i32 2
  %Shuff35 = shufflevector <4 x i8> zeroinitializer, <4 x i8> %Shuff28, <4 x i32> <i32 1, i32 undef, i32 undef, i32 7>
  %I36 = insertelement <4 x i8> zeroinitializer, i8 -85, i32 3
  %B37 = frem double 0xE8DEB2C8A8B5CAA, 0xBA9DEB3CDE9B04BA
  %Tr38 = trunc i64 %4 to i1
  br i1 %Tr38, label %CF92, label %CF101

CF101:                                            ; preds = %CF92
  %Sl39 = select i1 true, i8 %L13, i8 19
  %Cmp40 = icmp eq i8 %E34, %L
  br i1 %Cmp40, label %CF, label %CF91

CF91:                                             ; preds = %CF91, %CF98, %CF101
  %L41 = load i8, i8* %0, align 1
  store i8 119, i8* %0, align 1
  %E42 = extractelement <4 x i8> %Shuff7, i32 0
  %Shuff43 = shufflevector <4 x i8> %Shuff15, <4 x i8> %Shuff, <4 x i32> <i32 7, i32 1, i32 3, i32 5>
  %I44 = insertelement <1 x i8> zeroinitializer, i8 119, i32 0
  %FC = fptosi double 0xE8DEB2C8A8B5CAA to i16
  %Sl45 = select i1 true, i16 -17137, i16 0
  %Cmp46 = icmp ult i8 %E14, %B24
  br i1 %Cmp46, label %CF91, label %CF98

CF98:                                             ; preds = %CF91
  %L47 = load i8, i8* %0, align 1
  store i8 %B17, i8* %0, align 1
  %E48 = extractelement <4 x i8> zeroinitializer, i32 2
  %Shuff49 = shufflevector <4 x i8> %Shuff, <4 x i8> %Shuff7, <4 x i32> <i32 5, i32 7, i32 1, i32 3>
  %I50 = insertelement <4 x i8> zeroinitializer, i8 %L, i32 3
  %Sl51 = select i1 %Tr, i8 %5, i8 %L5
  %Cmp52 = icmp slt i8 %E14, 119
  br i1 %Cmp52, label %CF91, label %CF94

CF94:                                             ; preds = %CF94, %CF100, %CF97, %CF98
  %L53 = load <2 x i32>, <2 x i32>* %A1, align 8
  store <2 x float> <float 0xFFFFFFFFE0000000, float 0.000000e+00>, <2 x float>* %A, align 8
  %E54 = extractelement <4 x i8> %Shuff7, i32 0
  %Shuff55 = shufflevector <4 x i8> zeroinitializer, <4 x i8> %Shuff49, <4 x i32> <i32 3, i32 5, i32 7, i32 undef>
  %I56 = insertelement <4 x i8> %Shuff, i8 %5, i32 1
  %Se57 = sext <4 x i8> zeroinitializer to <4 x i32>
  %Sl58 = select <4 x i1> %Cmp32, <4 x i1> %Cmp32, <4 x i1> %Cmp32
  %Cmp59 = icmp sgt i16 0, %Sl18
  br i1 %Cmp59, label %CF94, label %CF100

CF100:                                            ; preds = %CF94
  %L60 = load i8, i8* %0, align 1
  store i8 %Sl39, i8* %0, align 1
  %E61 = extractelement <4 x i8> %Shuff, i32 2
  %Shuff62 = shufflevector <2 x i32> %L53, <2 x i32> %L53, <2 x i32> <i32 1, i32 3>
  %I63 = insertelement <4 x i8> zeroinitializer, i8 %L20, i32 3
  %B64 = udiv i8 %L41, %Sl51
  %Sl65 = select i1 %Tr38, i8 %E61, i8 19
  %Cmp66 = icmp sgt i64 165167, 0
  br i1 %Cmp66, label %CF94, label %CF97

CF97:                                             ; preds = %CF100
  %L67 = load i8, i8* %0, align 1
  store i8 %E48, i8* %0, align 1
  %E68 = extractelement <4 x i8> %Shuff28, i32 2
  %Shuff69 = shufflevector <4 x i8> zeroinitializer, <4 x i8> %I63, <4 x i32> <i32 1, i32 undef, i32 5, i32 7>
  %I70 = insertelement <2 x i32> %L53, i32 %3, i32 1
  %B71 = sdiv i16 %FC, 0
  %ZE72 = zext <4 x i8> zeroinitializer to <4 x i64>
  %Sl73 = select i1 %Cmp, i8 %L13, i8 %B24
  %Cmp74 = icmp eq i8 %Sl51, %Sl51
  br i1 %Cmp74, label %CF94, label %CF95

CF95:                                             ; preds = %CF97
  %L75 = load i8, i8* %0, align 1
  store i8 %E27, i8* %0, align 1
  %E76 = extractelement <4 x i8> %Shuff, i32 0
  %Shuff77 = shufflevector <4 x i16> zeroinitializer, <4 x i16> zeroinitializer, <4 x i32> <i32 3, i32 5, i32 7, i32 1>
  %I78 = insertelement <4 x i8> %Shuff49, i8 %L26, i32 1
  %B79 = fsub float 0x3CC76A8B40000000, 0x3CC76A8B40000000
  %FC80 = sitofp <2 x i1> zeroinitializer to <2 x double>
  %Sl81 = select i1 %Cmp, i64 0, i64 %4
  %Cmp82 = icmp uge i8 %E6, 19
  br i1 %Cmp82, label %CF, label %CF90

CF90:                                             ; preds = %CF95
  %L83 = load i8, i8* %0, align 1
  store i8 %L60, i8* %0, align 1
  %E84 = extractelement <4 x i8> zeroinitializer, i32 2
  %Shuff85 = shufflevector <4 x i16> zeroinitializer, <4 x i16> %Se, <4 x i32> <i32 5, i32 7, i32 1, i32 3>
  %I86 = insertelement <4 x i8> %Shuff, i8 %L5, i32 3
  %B87 = ashr <4 x i8> %Shuff35, %Shuff
  %Sl88 = select <4 x i1> %Cmp32, <4 x i8> zeroinitializer, <4 x i8> %Shuff43
  %Cmp89 = icmp sge <4 x i8> %I50, %I86
  store i8 119, i8* %0, align 1
  store i8 %L26, i8* %0, align 1
  store i8 %B9, i8* %0, align 1
  store i8 %E14, i8* %0, align 1
  store i8 %E21, i8* %0, align 1
  ret void
}
