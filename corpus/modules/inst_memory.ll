@s = constant [4 x i8] c"foo\00"

define void @f() {
0:
	%ptr = alloca i32
	%1 = load i32, i32* %ptr
	store i32 42, i32* %ptr
	fence acquire
	%2 = cmpxchg i32* %ptr, i32 10, i32 20 acquire monotonic
	%3 = atomicrmw add i32* %ptr, i32 30 acq_rel
	%4 = getelementptr [4 x i8], [4 x i8]* @s, i64 0, i64 0
	ret void
}
