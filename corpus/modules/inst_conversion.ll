define void @f() {
0:
	%1 = trunc i32 321 to i8
	%2 = zext i8 123 to i32
	%3 = sext i8 -123 to i32
	%4 = fptrunc double 1.0 to float
	%5 = fpext float 2.0 to double
	%6 = fptoui double 3.0 to i32
	%7 = fptosi double -4.0 to i32
	%8 = uitofp i32 5 to double
	%9 = sitofp i32 -6 to double
	%10 = ptrtoint i8* null to i32
	%11 = inttoptr i32 1234 to i8*
	%12 = bitcast { i32, i32 }* null to i64*
	%13 = addrspacecast i8* null to i8 addrspace(1)*
	ret void
}
