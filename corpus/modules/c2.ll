; ModuleID = 'in/c2.cpp'
source_filename = "in/c2.cpp"
target datalayout = "e-m:e-p270:32:32-p271:32:32-p272:64:64-i64:64-f80:128-n8:16:32:64-S128"
target triple = "x86_64-pc-linux-gnu"

%struct.B = type { i32 (...)** }
%"class.std::runtime_error" = type { %"class.std::exception", %"struct.std::__cow_string" }
%"class.std::exception" = type { i32 (...)** }
%"struct.std::__cow_string" = type { %union.anon }
%union.anon = type { i8* }

@_ZTISt9exception = external constant i8*
@.str = private unnamed_addr constant [2 x i8] c"x\00", align 1
@_ZTISt13runtime_error = external constant i8*

; Function Attrs: mustprogress uwtable
define dso_local noundef i32 @_Z1gP1B(%struct.B* noundef %0) local_unnamed_addr #0 personality i8* bitcast (i32 (...)* @__gxx_personality_v0 to i8*) {
  %2 = bitcast %struct.B* %0 to i32 (%struct.B*)***
  %3 = load i32 (%struct.B*)**, i32 (%struct.B*)*** %2, align 8, !tbaa !5
  %4 = getelementptr inbounds i32 (%struct.B*)*, i32 (%struct.B*)** %3, i64 2
  %5 = load i32 (%struct.B*)*, i32 (%struct.B*)** %4, align 8
  %6 = invoke noundef i32 %5(%struct.B* noundef nonnull align 8 dereferenceable(8) %0)
          to label %15 unwind label %7

7:                                                ; preds = %1
  %8 = landingpad { i8*, i32 }
          catch i8* bitcast (i8** @_ZTISt9exception to i8*)
  %9 = extractvalue { i8*, i32 } %8, 1
  %10 = call i32 @llvm.eh.typeid.for(i8* bitcast (i8** @_ZTISt9exception to i8*)) #5
  %11 = icmp eq i32 %9, %10
  br i1 %11, label %12, label %17

12:                                               ; preds = %7
  %13 = extractvalue { i8*, i32 } %8, 0
  %14 = call i8* @__cxa_begin_catch(i8* %13) #5
  call void @__cxa_end_catch()
  br label %15

15:                                               ; preds = %1, %12
  %16 = phi i32 [ -1, %12 ], [ %6, %1 ]
  ret i32 %16

17:                                               ; preds = %7
  resume { i8*, i32 } %8
}

declare i32 @__gxx_personality_v0(...)

; Function Attrs: nofree nosync nounwind readnone
declare i32 @llvm.eh.typeid.for(i8*) #1

declare i8* @__cxa_begin_catch(i8*) local_unnamed_addr

declare void @__cxa_end_catch() local_unnamed_addr

; Function Attrs: norecurse uwtable
define dso_local noundef i32 @main() local_unnamed_addr #2 personality i8* bitcast (i32 (...)* @__gxx_personality_v0 to i8*) {
  %1 = call i8* @__cxa_allocate_exception(i64 16) #5
  %2 = bitcast i8* %1 to %"class.std::runtime_error"*
  invoke void @_ZNSt13runtime_errorC1EPKc(%"class.std::runtime_error"* noundef nonnull align 8 dereferenceable(16) %2, i8* noundef getelementptr inbounds ([2 x i8], [2 x i8]* @.str, i64 0, i64 0))
          to label %3 unwind label %5

3:                                                ; preds = %0
  invoke void @__cxa_throw(i8* %1, i8* bitcast (i8** @_ZTISt13runtime_error to i8*), i8* bitcast (void (%"class.std::runtime_error"*)* @_ZNSt13runtime_errorD1Ev to i8*)) #6
          to label %4 unwind label %7

4:                                                ; preds = %3
  unreachable

5:                                                ; preds = %0
  %6 = landingpad { i8*, i32 }
          cleanup
          catch i8* bitcast (i8** @_ZTISt9exception to i8*)
  call void @__cxa_free_exception(i8* %1) #5
  br label %9

7:                                                ; preds = %3
  %8 = landingpad { i8*, i32 }
          cleanup
          catch i8* bitcast (i8** @_ZTISt9exception to i8*)
  br label %9

9:                                                ; preds = %5, %7
  %10 = phi { i8*, i32 } [ %8, %7 ], [ %6, %5 ]
  %11 = extractvalue { i8*, i32 } %10, 1
  %12 = call i32 @llvm.eh.typeid.for(i8* bitcast (i8** @_ZTISt9exception to i8*)) #5
  %13 = icmp eq i32 %11, %12
  br i1 %13, label %14, label %17

14:                                               ; preds = %9
  %15 = extractvalue { i8*, i32 } %10, 0
  %16 = call i8* @__cxa_begin_catch(i8* %15) #5
  call void @__cxa_end_catch()
  ret i32 -1

17:                                               ; preds = %9
  resume { i8*, i32 } %10
}

declare i8* @__cxa_allocate_exception(i64) local_unnamed_addr

declare void @_ZNSt13runtime_errorC1EPKc(%"class.std::runtime_error"* noundef nonnull align 8 dereferenceable(16), i8* noundef) unnamed_addr #3

declare void @__cxa_free_exception(i8*) local_unnamed_addr

; Function Attrs: nounwind
declare void @_ZNSt13runtime_errorD1Ev(%"class.std::runtime_error"* noundef nonnull align 8 dereferenceable(16)) unnamed_addr #4

declare void @__cxa_throw(i8*, i8*, i8*) local_unnamed_addr

attributes #0 = { mustprogress uwtable "frame-pointer"="none" "min-legal-vector-width"="0" "no-trapping-math"="true" "stack-protector-buffer-size"="8" "target-cpu"="x86-64" "target-features"="+cx8,+fxsr,+mmx,+sse,+sse2,+x87" "tune-cpu"="generic" }
attributes #1 = { nofree nosync nounwind readnone }
attributes #2 = { norecurse uwtable "frame-pointer"="none" "min-legal-vector-width"="0" "no-trapping-math"="true" "stack-protector-buffer-size"="8" "target-cpu"="x86-64" "target-features"="+cx8,+fxsr,+mmx,+sse,+sse2,+x87" "tune-cpu"="generic" }
attributes #3 = { "frame-pointer"="none" "no-trapping-math"="true" "stack-protector-buffer-size"="8" "target-cpu"="x86-64" "target-features"="+cx8,+fxsr,+mmx,+sse,+sse2,+x87" "tune-cpu"="generic" }
attributes #4 = { nounwind "frame-pointer"="none" "no-trapping-math"="true" "stack-protector-buffer-size"="8" "target-cpu"="x86-64" "target-features"="+cx8,+fxsr,+mmx,+sse,+sse2,+x87" "tune-cpu"="generic" }
attributes #5 = { nounwind }
attributes #6 = { noreturn }

!llvm.module.flags = !{!0, !1, !2, !3}
!llvm.ident = !{!4}

!0 = !{i32 1, !"wchar_size", i32 4}
!1 = !{i32 7, !"PIC Level", i32 2}
!2 = !{i32 7, !"PIE Level", i32 2}
!3 = !{i32 7, !"uwtable", i32 1}
!4 = !{!"Debian clang version 14.0.6"}
!5 = !{!6, !6, i64 0}
!6 = !{!"vtable pointer", !7, i64 0}
!7 = !{!"Simple C++ TBAA"}
