!foo = !{!DIExpression(1)}
!foo = !{!DIExpression(2)}
