; ModuleID = 'in/c1.c'
source_filename = "in/c1.c"
target datalayout = "e-m:e-p270:32:32-p271:32:32-p272:64:64-i64:64-f80:128-n8:16:32:64-S128"
target triple = "x86_64-pc-linux-gnu"

%struct.S = type { i32, double, [8 x i8] }
%struct.__va_list_tag = type { i32, i32, i8*, i8* }

@__const.main.s = private unnamed_addr constant %struct.S { i32 1, double 2.500000e+00, [8 x i8] c"hi\00\00\00\00\00\00" }, align 8
@ctr = dso_local global i32 0, align 4, !dbg !0
@.str = private unnamed_addr constant [14 x i8] c"%d %f %d %Lf\0A\00", align 1

; Function Attrs: noinline nounwind optnone uwtable
define dso_local i32 @sw(i32 noundef %0) #0 !dbg !17 {
  %2 = alloca i32, align 4
  %3 = alloca i32, align 4
  store i32 %0, i32* %3, align 4
  call void @llvm.dbg.declare(metadata i32* %3, metadata !21, metadata !DIExpression()), !dbg !22
  %4 = load i32, i32* %3, align 4, !dbg !23
  switch i32 %4, label %8 [
    i32 1, label %5
    i32 2, label %6
    i32 7, label %7
  ], !dbg !24

5:                                                ; preds = %1
  store i32 10, i32* %2, align 4, !dbg !25
  br label %9, !dbg !25

6:                                                ; preds = %1
  store i32 20, i32* %2, align 4, !dbg !27
  br label %9, !dbg !27

7:                                                ; preds = %1
  store i32 70, i32* %2, align 4, !dbg !28
  br label %9, !dbg !28

8:                                                ; preds = %1
  store i32 -1, i32* %2, align 4, !dbg !29
  br label %9, !dbg !29

9:                                                ; preds = %8, %7, %6, %5
  %10 = load i32, i32* %2, align 4, !dbg !30
  ret i32 %10, !dbg !30
}

; Function Attrs: nofree nosync nounwind readnone speculatable willreturn
declare void @llvm.dbg.declare(metadata, metadata, metadata) #1

; Function Attrs: noinline nounwind optnone uwtable
define dso_local i32 @main(i32 noundef %0, i8** noundef %1) #0 !dbg !31 {
  %3 = alloca i32, align 4
  %4 = alloca i32, align 4
  %5 = alloca i8**, align 8
  %6 = alloca %struct.S, align 8
  %7 = alloca float, align 4
  %8 = alloca x86_fp80, align 16
  store i32 0, i32* %3, align 4
  store i32 %0, i32* %4, align 4
  call void @llvm.dbg.declare(metadata i32* %4, metadata !37, metadata !DIExpression()), !dbg !38
  store i8** %1, i8*** %5, align 8
  call void @llvm.dbg.declare(metadata i8*** %5, metadata !39, metadata !DIExpression()), !dbg !40
  call void @llvm.dbg.declare(metadata %struct.S* %6, metadata !41, metadata !DIExpression()), !dbg !51
  %9 = bitcast %struct.S* %6 to i8*, !dbg !51
  call void @llvm.memcpy.p0i8.p0i8.i64(i8* align 8 %9, i8* align 8 bitcast (%struct.S* @__const.main.s to i8*), i64 24, i1 false), !dbg !51
  %10 = atomicrmw add i32* @ctr, i32 1 seq_cst, align 4, !dbg !52
  call void @llvm.dbg.declare(metadata float* %7, metadata !53, metadata !DIExpression()), !dbg !54
  %11 = load i32, i32* %4, align 4, !dbg !55
  %12 = sitofp i32 %11 to float, !dbg !56
  %13 = fmul float %12, 1.500000e+00, !dbg !57
  store float %13, float* %7, align 4, !dbg !54
  call void @llvm.dbg.declare(metadata x86_fp80* %8, metadata !58, metadata !DIExpression()), !dbg !60
  store x86_fp80 0xK4000C000000000000000, x86_fp80* %8, align 16, !dbg !60
  %14 = call i32 (i32, ...) @sum(i32 noundef 3, i32 noundef 1, i32 noundef 2, i32 noundef 3), !dbg !61
  %15 = load float, float* %7, align 4, !dbg !62
  %16 = fpext float %15 to double, !dbg !62
  %17 = getelementptr inbounds %struct.S, %struct.S* %6, i32 0, i32 1, !dbg !63
  %18 = load double, double* %17, align 8, !dbg !63
  %19 = fadd double %16, %18, !dbg !64
  %20 = load i32, i32* %4, align 4, !dbg !65
  %21 = call i32 @sw(i32 noundef %20), !dbg !66
  %22 = load x86_fp80, x86_fp80* %8, align 16, !dbg !67
  %23 = call i32 (i8*, ...) @printf(i8* noundef getelementptr inbounds ([14 x i8], [14 x i8]* @.str, i64 0, i64 0), i32 noundef %14, double noundef %19, i32 noundef %21, x86_fp80 noundef %22), !dbg !68
  %24 = load i32, i32* %4, align 4, !dbg !69
  %25 = call i32 @llvm.ctpop.i32(i32 %24), !dbg !70
  ret i32 %25, !dbg !71
}

; Function Attrs: argmemonly nofree nounwind willreturn
declare void @llvm.memcpy.p0i8.p0i8.i64(i8* noalias nocapture writeonly, i8* noalias nocapture readonly, i64, i1 immarg) #2

declare i32 @printf(i8* noundef, ...) #3

; Function Attrs: noinline nounwind optnone uwtable
define internal i32 @sum(i32 noundef %0, ...) #0 !dbg !72 {
  %2 = alloca i32, align 4
  %3 = alloca [1 x %struct.__va_list_tag], align 16
  %4 = alloca i32, align 4
  %5 = alloca i32, align 4
  store i32 %0, i32* %2, align 4
  call void @llvm.dbg.declare(metadata i32* %2, metadata !75, metadata !DIExpression()), !dbg !76
  call void @llvm.dbg.declare(metadata [1 x %struct.__va_list_tag]* %3, metadata !77, metadata !DIExpression()), !dbg !93
  %6 = getelementptr inbounds [1 x %struct.__va_list_tag], [1 x %struct.__va_list_tag]* %3, i64 0, i64 0, !dbg !94
  %7 = bitcast %struct.__va_list_tag* %6 to i8*, !dbg !94
  call void @llvm.va_start(i8* %7), !dbg !94
  call void @llvm.dbg.declare(metadata i32* %4, metadata !95, metadata !DIExpression()), !dbg !96
  store i32 0, i32* %4, align 4, !dbg !96
  call void @llvm.dbg.declare(metadata i32* %5, metadata !97, metadata !DIExpression()), !dbg !99
  store i32 0, i32* %5, align 4, !dbg !99
  br label %8, !dbg !100

8:                                                ; preds = %33, %1
  %9 = load i32, i32* %5, align 4, !dbg !101
  %10 = load i32, i32* %2, align 4, !dbg !103
  %11 = icmp slt i32 %9, %10, !dbg !104
  br i1 %11, label %12, label %36, !dbg !105

12:                                               ; preds = %8
  %13 = getelementptr inbounds [1 x %struct.__va_list_tag], [1 x %struct.__va_list_tag]* %3, i64 0, i64 0, !dbg !106
  %14 = getelementptr inbounds %struct.__va_list_tag, %struct.__va_list_tag* %13, i32 0, i32 0, !dbg !106
  %15 = load i32, i32* %14, align 16, !dbg !106
  %16 = icmp ule i32 %15, 40, !dbg !106
  br i1 %16, label %17, label %23, !dbg !106

17:                                               ; preds = %12
  %18 = getelementptr inbounds %struct.__va_list_tag, %struct.__va_list_tag* %13, i32 0, i32 3, !dbg !106
  %19 = load i8*, i8** %18, align 16, !dbg !106
  %20 = getelementptr i8, i8* %19, i32 %15, !dbg !106
  %21 = bitcast i8* %20 to i32*, !dbg !106
  %22 = add i32 %15, 8, !dbg !106
  store i32 %22, i32* %14, align 16, !dbg !106
  br label %28, !dbg !106

23:                                               ; preds = %12
  %24 = getelementptr inbounds %struct.__va_list_tag, %struct.__va_list_tag* %13, i32 0, i32 2, !dbg !106
  %25 = load i8*, i8** %24, align 8, !dbg !106
  %26 = bitcast i8* %25 to i32*, !dbg !106
  %27 = getelementptr i8, i8* %25, i32 8, !dbg !106
  store i8* %27, i8** %24, align 8, !dbg !106
  br label %28, !dbg !106

28:                                               ; preds = %23, %17
  %29 = phi i32* [ %21, %17 ], [ %26, %23 ], !dbg !106
  %30 = load i32, i32* %29, align 4, !dbg !106
  %31 = load i32, i32* %4, align 4, !dbg !107
  %32 = add nsw i32 %31, %30, !dbg !107
  store i32 %32, i32* %4, align 4, !dbg !107
  br label %33, !dbg !108

33:                                               ; preds = %28
  %34 = load i32, i32* %5, align 4, !dbg !109
  %35 = add nsw i32 %34, 1, !dbg !109
  store i32 %35, i32* %5, align 4, !dbg !109
  br label %8, !dbg !110, !llvm.loop !111

36:                                               ; preds = %8
  %37 = getelementptr inbounds [1 x %struct.__va_list_tag], [1 x %struct.__va_list_tag]* %3, i64 0, i64 0, !dbg !114
  %38 = bitcast %struct.__va_list_tag* %37 to i8*, !dbg !114
  call void @llvm.va_end(i8* %38), !dbg !114
  %39 = load i32, i32* %4, align 4, !dbg !115
  ret i32 %39, !dbg !116
}

; Function Attrs: nofree nosync nounwind readnone speculatable willreturn
declare i32 @llvm.ctpop.i32(i32) #1

; Function Attrs: nofree nosync nounwind willreturn
declare void @llvm.va_start(i8*) #4

; Function Attrs: nofree nosync nounwind willreturn
declare void @llvm.va_end(i8*) #4

attributes #0 = { noinline nounwind optnone uwtable "frame-pointer"="all" "min-legal-vector-width"="0" "no-trapping-math"="true" "stack-protector-buffer-size"="8" "target-cpu"="x86-64" "target-features"="+cx8,+fxsr,+mmx,+sse,+sse2,+x87" "tune-cpu"="generic" }
attributes #1 = { nofree nosync nounwind readnone speculatable willreturn }
attributes #2 = { argmemonly nofree nounwind willreturn }
attributes #3 = { "frame-pointer"="all" "no-trapping-math"="true" "stack-protector-buffer-size"="8" "target-cpu"="x86-64" "target-features"="+cx8,+fxsr,+mmx,+sse,+sse2,+x87" "tune-cpu"="generic" }
attributes #4 = { nofree nosync nounwind willreturn }

!llvm.dbg.cu = !{!2}
!llvm.module.flags = !{!9, !10, !11, !12, !13, !14, !15}
!llvm.ident = !{!16}

!0 = !DIGlobalVariableExpression(var: !1, expr: !DIExpression())
!1 = distinct !DIGlobalVariable(name: "ctr", scope: !2, file: !3, line: 6, type: !7, isLocal: false, isDefinition: true)
!2 = distinct !DICompileUnit(language: DW_LANG_C99, file: !3, producer: "Debian clang version 14.0.6", isOptimized: false, runtimeVersion: 0, emissionKind: FullDebug, retainedTypes: !4, globals: !6, splitDebugInlining: false, nameTableKind: None)
!3 = !DIFile(filename: "in/c1.c", directory: "/root/spikes/dumper", checksumkind: CSK_MD5, checksum: "d9834412ece29c2b9cbd855cde48b8a5")
!4 = !{!5}
!5 = !DIBasicType(name: "float", size: 32, encoding: DW_ATE_float)
!6 = !{!0}
!7 = !DIDerivedType(tag: DW_TAG_atomic_type, baseType: !8)
!8 = !DIBasicType(name: "int", size: 32, encoding: DW_ATE_signed)
!9 = !{i32 7, !"Dwarf Version", i32 5}
!10 = !{i32 2, !"Debug Info Version", i32 3}
!11 = !{i32 1, !"wchar_size", i32 4}
!12 = !{i32 7, !"PIC Level", i32 2}
!13 = !{i32 7, !"PIE Level", i32 2}
!14 = !{i32 7, !"uwtable", i32 1}
!15 = !{i32 7, !"frame-pointer", i32 2}
!16 = !{!"Debian clang version 14.0.6"}
!17 = distinct !DISubprogram(name: "sw", scope: !3, file: !3, line: 5, type: !18, scopeLine: 5, flags: DIFlagPrototyped, spFlags: DISPFlagDefinition, unit: !2, retainedNodes: !20)
!18 = !DISubroutineType(types: !19)
!19 = !{!8, !8}
!20 = !{}
!21 = !DILocalVariable(name: "x", arg: 1, scope: !17, file: !3, line: 5, type: !8)
!22 = !DILocation(line: 5, column: 12, scope: !17)
!23 = !DILocation(line: 5, column: 25, scope: !17)
!24 = !DILocation(line: 5, column: 17, scope: !17)
!25 = !DILocation(line: 5, column: 38, scope: !26)
!26 = distinct !DILexicalBlock(scope: !17, file: !3, line: 5, column: 28)
!27 = !DILocation(line: 5, column: 57, scope: !26)
!28 = !DILocation(line: 5, column: 76, scope: !26)
!29 = !DILocation(line: 5, column: 96, scope: !26)
!30 = !DILocation(line: 5, column: 109, scope: !17)
!31 = distinct !DISubprogram(name: "main", scope: !3, file: !3, line: 7, type: !32, scopeLine: 7, flags: DIFlagPrototyped, spFlags: DISPFlagDefinition, unit: !2, retainedNodes: !20)
!32 = !DISubroutineType(types: !33)
!33 = !{!8, !8, !34}
!34 = !DIDerivedType(tag: DW_TAG_pointer_type, baseType: !35, size: 64)
!35 = !DIDerivedType(tag: DW_TAG_pointer_type, baseType: !36, size: 64)
!36 = !DIBasicType(name: "char", size: 8, encoding: DW_ATE_signed_char)
!37 = !DILocalVariable(name: "argc", arg: 1, scope: !31, file: !3, line: 7, type: !8)
!38 = !DILocation(line: 7, column: 14, scope: !31)
!39 = !DILocalVariable(name: "argv", arg: 2, scope: !31, file: !3, line: 7, type: !34)
!40 = !DILocation(line: 7, column: 27, scope: !31)
!41 = !DILocalVariable(name: "s", scope: !31, file: !3, line: 7, type: !42)
!42 = distinct !DICompositeType(tag: DW_TAG_structure_type, name: "S", file: !3, line: 2, size: 192, elements: !43)
!43 = !{!44, !45, !47}
!44 = !DIDerivedType(tag: DW_TAG_member, name: "a", scope: !42, file: !3, line: 2, baseType: !8, size: 32)
!45 = !DIDerivedType(tag: DW_TAG_member, name: "b", scope: !42, file: !3, line: 2, baseType: !46, size: 64, offset: 64)
!46 = !DIBasicType(name: "double", size: 64, encoding: DW_ATE_float)
!47 = !DIDerivedType(tag: DW_TAG_member, name: "c", scope: !42, file: !3, line: 2, baseType: !48, size: 64, offset: 128)
!48 = !DICompositeType(tag: DW_TAG_array_type, baseType: !36, size: 64, elements: !49)
!49 = !{!50}
!50 = !DISubrange(count: 8)
!51 = !DILocation(line: 7, column: 44, scope: !31)
!52 = !DILocation(line: 7, column: 67, scope: !31)
!53 = !DILocalVariable(name: "f", scope: !31, file: !3, line: 7, type: !5)
!54 = !DILocation(line: 7, column: 77, scope: !31)
!55 = !DILocation(line: 7, column: 88, scope: !31)
!56 = !DILocation(line: 7, column: 81, scope: !31)
!57 = !DILocation(line: 7, column: 93, scope: !31)
!58 = !DILocalVariable(name: "ld", scope: !31, file: !3, line: 7, type: !59)
!59 = !DIBasicType(name: "long double", size: 128, encoding: DW_ATE_float)
!60 = !DILocation(line: 7, column: 113, scope: !31)
!61 = !DILocation(line: 7, column: 149, scope: !31)
!62 = !DILocation(line: 7, column: 166, scope: !31)
!63 = !DILocation(line: 7, column: 172, scope: !31)
!64 = !DILocation(line: 7, column: 168, scope: !31)
!65 = !DILocation(line: 7, column: 178, scope: !31)
!66 = !DILocation(line: 7, column: 175, scope: !31)
!67 = !DILocation(line: 7, column: 185, scope: !31)
!68 = !DILocation(line: 7, column: 124, scope: !31)
!69 = !DILocation(line: 7, column: 216, scope: !31)
!70 = !DILocation(line: 7, column: 197, scope: !31)
!71 = !DILocation(line: 7, column: 190, scope: !31)
!72 = distinct !DISubprogram(name: "sum", scope: !3, file: !3, line: 4, type: !73, scopeLine: 4, flags: DIFlagPrototyped, spFlags: DISPFlagLocalToUnit | DISPFlagDefinition, unit: !2, retainedNodes: !20)
!73 = !DISubroutineType(types: !74)
!74 = !{!8, !8, null}
!75 = !DILocalVariable(name: "n", arg: 1, scope: !72, file: !3, line: 4, type: !8)
!76 = !DILocation(line: 4, column: 20, scope: !72)
!77 = !DILocalVariable(name: "ap", scope: !72, file: !3, line: 4, type: !78)
!78 = !DIDerivedType(tag: DW_TAG_typedef, name: "va_list", file: !79, line: 14, baseType: !80)
!79 = !DIFile(filename: "/usr/lib/llvm-14/lib/clang/14.0.6/include/stdarg.h", directory: "", checksumkind: CSK_MD5, checksum: "4de3cbd931b589d291e5c39387aecf82")
!80 = !DIDerivedType(tag: DW_TAG_typedef, name: "__builtin_va_list", file: !81, baseType: !82)
!81 = !DIFile(filename: "in/c1.c", directory: "/root/spikes/dumper")
!82 = !DICompositeType(tag: DW_TAG_array_type, baseType: !83, size: 192, elements: !91)
!83 = distinct !DICompositeType(tag: DW_TAG_structure_type, name: "__va_list_tag", size: 192, elements: !84)
!84 = !{!85, !87, !88, !90}
!85 = !DIDerivedType(tag: DW_TAG_member, name: "gp_offset", scope: !83, file: !81, line: 4, baseType: !86, size: 32)
!86 = !DIBasicType(name: "unsigned int", size: 32, encoding: DW_ATE_unsigned)
!87 = !DIDerivedType(tag: DW_TAG_member, name: "fp_offset", scope: !83, file: !81, line: 4, baseType: !86, size: 32, offset: 32)
!88 = !DIDerivedType(tag: DW_TAG_member, name: "overflow_arg_area", scope: !83, file: !81, line: 4, baseType: !89, size: 64, offset: 64)
!89 = !DIDerivedType(tag: DW_TAG_pointer_type, baseType: null, size: 64)
!90 = !DIDerivedType(tag: DW_TAG_member, name: "reg_save_area", scope: !83, file: !81, line: 4, baseType: !89, size: 64, offset: 128)
!91 = !{!92}
!92 = !DISubrange(count: 1)
!93 = !DILocation(line: 4, column: 38, scope: !72)
!94 = !DILocation(line: 4, column: 42, scope: !72)
!95 = !DILocalVariable(name: "s", scope: !72, file: !3, line: 4, type: !8)
!96 = !DILocation(line: 4, column: 63, scope: !72)
!97 = !DILocalVariable(name: "i", scope: !98, file: !3, line: 4, type: !8)
!98 = distinct !DILexicalBlock(scope: !72, file: !3, line: 4, column: 70)
!99 = !DILocation(line: 4, column: 79, scope: !98)
!100 = !DILocation(line: 4, column: 75, scope: !98)
!101 = !DILocation(line: 4, column: 86, scope: !102)
!102 = distinct !DILexicalBlock(scope: !98, file: !3, line: 4, column: 70)
!103 = !DILocation(line: 4, column: 90, scope: !102)
!104 = !DILocation(line: 4, column: 88, scope: !102)
!105 = !DILocation(line: 4, column: 70, scope: !98)
!106 = !DILocation(line: 4, column: 103, scope: !102)
!107 = !DILocation(line: 4, column: 100, scope: !102)
!108 = !DILocation(line: 4, column: 98, scope: !102)
!109 = !DILocation(line: 4, column: 94, scope: !102)
!110 = !DILocation(line: 4, column: 70, scope: !102)
!111 = distinct !{!111, !105, !112, !113}
!112 = !DILocation(line: 4, column: 103, scope: !98)
!113 = !{!"llvm.loop.mustprogress"}
!114 = !DILocation(line: 4, column: 120, scope: !72)
!115 = !DILocation(line: 4, column: 139, scope: !72)
!116 = !DILocation(line: 4, column: 132, scope: !72)
