define void @f(i8* %target) {
0:
	indirectbr i8* %target, [label %foo]

foo:
	br label %bar

bar:
	ret void
}
