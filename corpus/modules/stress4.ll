; ModuleID = '/tmp/autogen.bc'
source_filename = "/tmp/autogen.bc"

define void @autogen_SD4(i8* %0, i32* %1, i64* %2, i32 %3, i64 %4, i8 %5) {
BB:
  %A4 = alloca <16 x i64>, align 128
  %A3 = alloca <8 x i32>, align 32
  %A2 = alloca <8 x i64>, align 64
  %A1 = alloca <1 x double>, align 8
  %A = alloca <2 x i8>, align 2
  %L = load i8, i8* %0, align 1
  store i64 %4, i64* %2, align 4
  %E = extractelement <16 x i16> zeroinitializer, i32 5
  %Shuff = shufflevector <8 x i64> zeroinitializer, <8 x i64> zeroinitializer, <8 x i32> <i32 8, i32 undef, i32 12, i32 14, i32 0, i32 2, i32 4, i32 6>
  %I = insertelement <1 x i64> zeroinitializer, i64 306417, i32 0
  %B = and i8 %L, -47
  %Tr = trunc i32 287221 to i8
  %Sl = select i1 true, i32 373173, i32 %3
  %Cmp = icmp ugt i32 373173, 287221
  br label %CF95

CF95:                                             ; preds = %CF95, %BB
  %L5 = load i8, i8* %0, align 1
  store i8 0, i8* %0, align 1
  %E6 = extractelement <8 x i64> zeroinitializer, i32 3
  %Shuff7 = shufflevector <8 x i1> zeroinitializer, <8 x i1> zeroinitializer, <8 x i32> <i32 14, i32 0, i32 undef, i32 4, i32 6, i32 8, i32 10, i32 12>
  %I8 = insertelement <1 x i64> zeroinitializer, i64 41121, i32 0
  %B9 = lshr i32 %Sl, 491581
  %PC = bitcast <8 x i64>* %A2 to i16*
  %Sl10 = select i1 true, i1 %Cmp, i1 true
  br i1 %Sl10, label %CF95, label %CF100

CF100:                                            ; preds = %CF100, %CF95
  %Cmp11 = icmp slt <8 x i64> zeroinitializer, zeroinitializer
  %L12 = load i16, i16* %PC, align 2
  store i16 %E, i16* %PC, align 2
  %E13 = extractelement <4 x i8> zeroinitializer, i32 0
  %Shuff14 = shufflevector <8 x i1> zeroinitializer, <8 x i1> zeroinitializer, <8 x i32> <i32 3, i32 5, i32 7, i32 9, i32 undef, i32 13, i32 15, i32 1>
  %I15 = insertelement <16 x i16> zeroinitializer, i16 %L12, i32 5
  %B16 = udiv <1 x i64> zeroinitializer, zeroinitializer
  %Se = sext i8 %5 to i32
  %Sl17 = select i1 true, <8 x i32>* %A3, <8 x i32>* %A3
  %Cmp18 = icmp uge i8 -43, %L
  br i1 %Cmp18, label %CF100, label %CF105

CF105:                                            ; preds = %CF100
  %L19 = load i16, i16* %PC, align 2
  store i16 %L12, i16* %PC, align 2
  %E20 = extractelement <8 x i64> %Shuff, i32 7
  %Shuff21 = shufflevector <8 x i64> zeroinitializer, <8 x i64> zeroinitializer, <8 x i32> <i32 10, i32 12, i32 14, i32 0, i32 2, i32 4, i32 undef, i32 8>
  %I22 = insertelement <1 x i64> zeroinitializer, i64 %E6, i32 0
  %B23 = srem i64 %4, %4
  %FC = sitofp i1 true to double
  %Sl24 = select i1 %Cmp18, <8 x i32>* %Sl17, <8 x i32>* %A3
  %Cmp25 = icmp uge <8 x i1> %Shuff7, %Shuff7
  %L26 = load <2 x i8>, <2 x i8>* %A, align 2
  store i16 %L12, i16* %PC, align 2
  %E27 = extractelement <8 x i1> %Cmp11, i32 6
  br label %CF94

CF94:                                             ; preds = %CF94, %CF106, %CF105
  %Shuff28 = shufflevector <8 x i64> zeroinitializer, <8 x i64> %Shuff21, <8 x i32> <i32 1, i32 undef, i32 5, i32 undef, i32 undef, i32 11, i32 undef, i32 15>
  %I29 = insertelement <1 x i64> zeroinitializer, i64 206097, i32 0
  %Tr30 = trunc i64 %E20 to i32
  %Sl31 = select i1 %E27, i64 206097, i64 %E20
  %Cmp32 = icmp sge i64 %4, 41121
  br i1 %Cmp32, label %CF94, label %CF106

CF106:                                            ; preds = %CF94
  %L33 = load i16, i16* %PC, align 2
  store i16 %E, i16* %PC, align 2
  %E34 = extractelement <8 x i64> zeroinitializer, i32 3
  %Shuff35 = shufflevector <1 x i64> zeroinitializer, <1 x i64> %I22, <1 x i32> undef
  %I36 = insertelement <8 x i64> %Shuff, i64 %Sl31, i32 2
  %B37 = and i16 17145, %E
  %ZE = zext i1 %E27 to i16
  %Sl38 = select i1 true, i64 -1, i64 %E6
  %Cmp39 = icmp uge <8 x i64> zeroinitializer, %Shuff21
  %L40 = load <8 x i32>, <8 x i32>* %Sl24, align 32
  store i8 %5, i8* %0, align 1
  %E41 = extractelement <1 x i64> %Shuff35, i32 0
  %Shuff42 = shufflevector <8 x i64> zeroinitializer, <8 x i64> zeroinitializer, <8 x i32> <i32 15, i32 1, i32 3, i32 5, i32 undef, i32 9, i32 undef, i32 13>
  %I43 = insertelement <8 x i64> zeroinitializer, i64 %E20, i32 1
  %B44 = udiv i64 %E20, %Sl31
  %Se45 = sext i8 -1 to i32
  %Sl46 = select <8 x i1> %Shuff7, <8 x i64> %I43, <8 x i64> %Shuff28
  %Cmp47 = icmp sge i32 211981, %B9
  br i1 %Cmp47, label %CF94, label %CF98

CF98:                                             ; preds = %CF106
  %L48 = load i16, i16* %PC, align 2
  store <2 x i8> %L26, <2 x i8>* %A, align 2
  %E49 = extractelement <8 x i64> zeroinitializer, i32 4
  %Shuff50 = shufflevector <1 x i64> zeroinitializer, <1 x i64> zeroinitializer, <1 x i32> <i32 1>
  %I51 = insertelement <1 x i64> zeroinitializer, i64 %Sl38, i32 0
  %B52 = srem <8 x i64> zeroinitializer, zeroinitializer
  %Tr53 = trunc i8 -47 to i1
  br label %CF

CF:                                               ; preds = %CF, %CF104, %CF98
  %Sl54 = select i1 %E27, i16 %B37, i16 %L33
  %Cmp55 = fcmp ord double 0xA99365B24491B630, %FC
  br i1 %Cmp55, label %CF, label %CF102

CF102:                                            ; preds = %CF102, %CF
  %L56 = load <16 x i64>, <16 x i64>* %A4, align 128
  store i8 0, i8* %0, align 1
  %E57 = extractelement <8 x i64> %Shuff, i32 4
  %Shuff58 = shufflevector <8 x i1> %Cmp39, <8 x i1> %Cmp25, <8 x i32> <i32 15, i32 1, i32 3, i32 5, i32 7, i32 9, i32 undef, i32 undef>
  %I59 = insertelement <8 x i64> zeroinitializer, i64 %E6, i32 1
  %B60 = fdiv double 0xE02B3A4A372946C8, 0xA99365B24491B630
  %Tr61 = trunc <8 x i64> %Shuff21 to <8 x i1>
  %Sl62 = select i1 true, i64 %E34, i64 %Sl31
  %Cmp63 = icmp slt i1 true, %Cmp18
  br i1 %Cmp63, label %CF102, label %CF104

CF104:                                            ; preds = %CF102
  %L64 = load i16, i16* %PC, align 2
  store i16 %L19, i16* %PC, align 2
  %E65 = extractelement <8 x i64> zeroinitializer, i32 5
  %Shuff66 = shufflevector <8 x i64> zeroinitializer, <8 x i64> zeroinitializer, <8 x i32> <i32 8, i32 10, i32 12, i32 14, i32 undef, i32 2, i32 4, i32 undef>
  %I67 = insertelement <1 x i64> %Shuff50, i64 %E6, i32 0
  %B68 = add i16 32521, %E
  %Se69 = sext <8 x i1> %Tr61 to <8 x i32>
  %Sl70 = select i1 true, <8 x i32>* %A3, <8 x i32>* %Sl17
  %Cmp71 = icmp ult i8 -43, %5
  br i1 %Cmp71, label %CF, label %CF96

CF96:                                             ; preds = %CF96, %CF101, %CF104
  %L72 = load <8 x i32>, <8 x i32>* %Sl70, align 32
  store <8 x i32> %L40, <8 x i32>* %Sl24, align 32
  %E73 = extractelement <1 x i64> %Shuff50, i32 0
  %Shuff74 = shufflevector <8 x i64> %Shuff28, <8 x i64> %Shuff, <8 x i32> <i32 2, i32 undef, i32 6, i32 8, i32 10, i32 12, i32 14, i32 0>
  %I75 = insertelement <1 x i64> zeroinitializer, i64 %Sl31, i32 0
  %Tr76 = trunc <8 x i64> %Shuff28 to <8 x i1>
  %Sl77 = select i1 %Cmp18, i16 %L12, i16 %E
  %Cmp78 = icmp uge i16 %Sl54, %L33
  br i1 %Cmp78, label %CF96, label %CF101

CF101:                                            ; preds = %CF96
  %L79 = load i16, i16* %PC, align 2
  store i16 %Sl77, i16* %PC, align 2
  %E80 = extractelement <1 x i64> %I22, i32 0
  %Shuff81 = shufflevector <2 x i8> zeroinitializer, <2 x i8> zeroinitializer, <2 x i32> <i32 2, i32 0>
  %I82 = insertelement <8 x i1> %Cmp25, i1 %Sl10, i32 0
  %B83 = srem <1 x i64> %Shuff35, %I
  %PC84 = bitcast <8 x i64>* %A2 to i32*
  %Sl85 = select i1 %Cmp71, <2 x i8>* %A, <2 x i8>* %A
  %Cmp86 = icmp slt i32 491581, %3
  br i1 %Cmp86, label %CF96, label %CF97

CF97:                                             ; preds = %CF97, %CF101
  %L87 = load i16, i16* %PC, align 2
  store <8 x i32> %L40, <8 x i32>* %Sl70, align 32
  %E88 = extractelement <8 x i1> %Cmp11, i32 0
  br i1 %E88, label %CF97, label %CF99

CF99:                                             ; preds = %CF99, %CF97
  %Shuff89 = shufflevector <8 x i64> zeroinitializer, <8 x i64> zeroinitializer, <8 x i32> <i32 3, i32 5, i32 7, i32 9, i32 11, i32 13, i32 15, i32 undef>
  %I90 = insertelement <8 x i1> %Tr61, i1 %Cmp18, i32 5
  %Tr91 = trunc i16 %B37 to i1
  br i1 %Tr91, label %CF99, label %CF103

CF103:                                            ; preds = %CF103, %CF99
  %Sl92 = select i1 %Cmp55, i32 %Tr30, i32 373173
  %Cmp93 = icmp ult i16 %L64, -14615
  br i1 %Cmp93, label %CF103, label %CF107

CF107:                                            ; preds = %CF103
  store <8 x i32> %L40, <8 x i32>* %Sl70, align 32
  store i16 %Sl77, i16* %PC, align 2
  store i16 17145, i16* %PC, align 2
  store <8 x i32> %L40, <8 x i32>* %Sl17, align 32
  store i32 %Tr30, i32* %PC84, align 4
  ret void
}
