@format = constant [6 x i8] c"%08X\0A\00"

define i32 @add(i32 %a, i32 %b) {
0:
	%result = add i32 %a, %b
	ret i32 %result
}

define i32 @sub(i32 %0, i32 %1) {
2:
	%result = sub i32 %0, %1
	ret i32 %result
}

define i32 @f(i32 %a, i32 %b) {
0:
	%tmp1 = add i32 %a, %b
	%tmp2 = sub i32 %tmp1, 1
	%tmp3 = mul i32 %tmp2, 12345678
	%tmp4 = udiv i32 %tmp3, 2
	%tmp5 = sdiv i32 %tmp4, 3
	%tmp6 = urem i32 %tmp5, 14594
	%tmp7 = srem i32 %tmp6, 1000
	%tmp8 = shl i32 %tmp7, 1
	%tmp9 = lshr i32 %tmp8, 2
	%tmp10 = mul i32 %tmp9, -1
	%tmp11 = ashr i32 %tmp10, 2
	%tmp12 = and i32 %tmp11, 249  ; 0b11111001
	%tmp13 = or i32 %tmp12, 4     ; 0b00000100
	%result = xor i32 %tmp13, 255 ; 0b11111111
	call i32(i8*, ...) @printf(i8* getelementptr ([6 x i8], [6 x i8]* @format, i32 0, i32 0), i32 %result)
	ret i32 %result
}

define i32 @main() {
0:
	%tmp1 = call i32 @add(i32 -1, i32 3)
	%tmp2 = call i32 @sub(i32 13, i32 5)
	%result = call i32 @f(i32 %tmp1, i32 %tmp2)
	ret i32 %result
}

declare i32 @printf(i8*, ...)
