; every instruction and terminator kind the clang/stress corpus does not reach, with optional operands present
declare i32 @g(i32, ...)
declare void @v()
declare i32 @pers(...)
define i32 @all(i32 %a, i32* %p, <4 x i32> %vec, { i32, [2 x i8] } %agg, float %f, i8* %addr, i1 %c) personality i32 (...)* @pers {
entry:
	%fn = fneg float %f
	%ee = extractelement <4 x i32> %vec, i32 %a
	%ie = insertelement <4 x i32> %vec, i32 %a, i32 1
	%sv = shufflevector <4 x i32> %vec, <4 x i32> %ie, <4 x i32> <i32 0, i32 5, i32 2, i32 7>
	%ev = extractvalue { i32, [2 x i8] } %agg, 1, 0
	%iv = insertvalue { i32, [2 x i8] } %agg, i32 %a, 0
	%al = alloca i32, i32 %a, align 4
	%ld = load i32, i32* %p
	store i32 %a, i32* %p
	fence seq_cst
	%cx = cmpxchg i32* %p, i32 %a, i32 %ld seq_cst seq_cst
	%rmw = atomicrmw add i32* %p, i32 %a seq_cst
	%gep = getelementptr i32, i32* %p, i32 %a
	%tr = trunc i32 %a to i8
	%ic = icmp eq i32 %a, %ld
	%fc = fcmp oeq float %f, %fn
	%sel = select i1 %c, i32 %a, i32 %ld
	%fr = freeze i32 %a
	%cl = call i32 (i32, ...) @g(i32 %a, i32 %ld) [ "deopt"(i32 %a, i32* %p), "x"(float %f) ]
	%va = va_arg i8* %addr, i32
	br i1 %c, label %sw, label %ind
sw:
	%ph = phi i32 [ %a, %entry ], [ %ph, %sw ]
	switch i32 %ph, label %inv [ i32 0, label %sw
	                              i32 1, label %ind ]
ind:
	indirectbr i8* %addr, [ label %inv, label %cbr ]
inv:
	%r = invoke i32 (i32, ...) @g(i32 %a, i32 %ld, float %f, i32 %a) [ "deopt"(i32 %ld) ] to label %cbr unwind label %lp
cbr:
	%cb = callbr i32 (i32, ...) @g(i32 %a, i32 %ld, i32 %a) [ "deopt"(i32 %a) ] to label %ret [label %ind]
lp:
	%l = landingpad { i8*, i32 } cleanup catch i8* bitcast (i32 (...)* @pers to i8*)
	resume { i8*, i32 } %l
ret:
	ret i32 %sel
}
define void @eh(i8* %addr) personality i32 (...)* @pers {
entry:
	invoke void @v() to label %done unwind label %cs
cs:
	%s = catchswitch within none [label %cp] unwind to caller
cp:
	%p = catchpad within %s [i8* %addr, i32 7]
	catchret from %p to label %done
cl:
	%q = cleanuppad within none [i8* %addr]
	cleanupret from %q unwind to caller
done:
	unreachable
}

define void @eh_unwind_labels(i8* %addr) personality i32 (...)* @pers {
entry:
	invoke void @v() to label %done unwind label %cs
cs:
	%s = catchswitch within none [label %h1, label %h2] unwind label %cl
h1:
	%p1 = catchpad within %s [i8* %addr]
	catchret from %p1 to label %done
h2:
	%p2 = catchpad within %s []
	catchret from %p2 to label %done
cl:
	%q = cleanuppad within none []
	cleanupret from %q unwind label %cl2
cl2:
	%q2 = cleanuppad within none [i8* %addr]
	cleanupret from %q2 unwind to caller
done:
	unreachable
}

define i32 @alloca_in_address_space(i32 %n) {
entry:
	%a = alloca i32, addrspace(5)
	%b = alloca i64, i32 %n, align 8, addrspace(5)
	store i32 %n, i32 addrspace(5)* %a
	%v = load i32, i32 addrspace(5)* %a
	%c = addrspacecast i64 addrspace(5)* %b to i64*
	store i64 7, i64* %c
	ret i32 %v
}

define i32* @gep_with_vector_indices(i32* %p, <4 x i32*> %vp, { i32, [4 x i8] }* %s, <4 x i64> %vi) {
entry:
	%g1 = getelementptr i32, i32* %p, <4 x i64> <i64 1, i64 1, i64 1, i64 1>
	%e1 = extractelement <4 x i32*> %g1, i32 0
	%g2 = getelementptr i32, i32* %p, <4 x i64> <i64 0, i64 1, i64 2, i64 3>
	%e2 = extractelement <4 x i32*> %g2, i32 3
	%g3 = getelementptr i32, <4 x i32*> %vp, i64 2
	%e3 = extractelement <4 x i32*> %g3, i32 1
	%g4 = getelementptr { i32, [4 x i8] }, { i32, [4 x i8] }* %s, <4 x i64> %vi, i32 1, <4 x i32> <i32 2, i32 2, i32 2, i32 2>
	%e4 = extractelement <4 x i8*> %g4, i32 2
	%g5 = getelementptr i32, i32* %p
	%c = icmp eq i32* %e1, %e2
	%r = select i1 %c, i32* %e3, i32* %g5
	ret i32* %r
}
