@g = global i32 0, align 1, section "foo"
@h = global i32 0, section "foo", align 1
