; ModuleID = 'in/c1.c'
source_filename = "in/c1.c"
target datalayout = "e-m:e-p270:32:32-p271:32:32-p272:64:64-i64:64-f80:128-n8:16:32:64-S128"
target triple = "x86_64-pc-linux-gnu"

%struct.__va_list_tag = type { i32, i32, i8*, i8* }

@ctr = dso_local global i32 0, align 4
@.str = private unnamed_addr constant [14 x i8] c"%d %f %d %Lf\0A\00", align 1
@switch.table.main = private unnamed_addr constant [7 x i32] [i32 10, i32 20, i32 -1, i32 -1, i32 -1, i32 -1, i32 70], align 4

; Function Attrs: mustprogress nofree norecurse nosync nounwind readnone uwtable willreturn
define dso_local i32 @sw(i32 noundef %0) local_unnamed_addr #0 {
  %2 = add i32 %0, -1
  %3 = icmp ult i32 %2, 7
  br i1 %3, label %4, label %8

4:                                                ; preds = %1
  %5 = sext i32 %2 to i64
  %6 = getelementptr inbounds [7 x i32], [7 x i32]* @switch.table.main, i64 0, i64 %5
  %7 = load i32, i32* %6, align 4
  br label %8

8:                                                ; preds = %1, %4
  %9 = phi i32 [ %7, %4 ], [ -1, %1 ]
  ret i32 %9
}

; Function Attrs: nofree nounwind uwtable
define dso_local i32 @main(i32 noundef %0, i8** nocapture noundef readnone %1) local_unnamed_addr #1 {
  %3 = atomicrmw add i32* @ctr, i32 1 seq_cst, align 4
  %4 = tail call i32 (i32, ...) @sum(i32 undef, i32 noundef 1, i32 noundef 2, i32 noundef 3)
  %5 = add i32 %0, -1
  %6 = icmp ult i32 %5, 7
  br i1 %6, label %7, label %11

7:                                                ; preds = %2
  %8 = sext i32 %5 to i64
  %9 = getelementptr inbounds [7 x i32], [7 x i32]* @switch.table.main, i64 0, i64 %8
  %10 = load i32, i32* %9, align 4
  br label %11

11:                                               ; preds = %2, %7
  %12 = phi i32 [ %10, %7 ], [ -1, %2 ]
  %13 = sitofp i32 %0 to float
  %14 = fmul float %13, 1.500000e+00
  %15 = fpext float %14 to double
  %16 = fadd double %15, 2.500000e+00
  %17 = tail call i32 (i8*, ...) @printf(i8* noundef nonnull dereferenceable(1) getelementptr inbounds ([14 x i8], [14 x i8]* @.str, i64 0, i64 0), i32 noundef %4, double noundef %16, i32 noundef %12, x86_fp80 noundef 0xK4000C000000000000000)
  %18 = tail call i32 @llvm.ctpop.i32(i32 %0), !range !5
  ret i32 %18
}

; Function Attrs: argmemonly mustprogress nofree nosync nounwind willreturn
declare void @llvm.lifetime.start.p0i8(i64 immarg, i8* nocapture) #2

; Function Attrs: nofree nounwind
declare noundef i32 @printf(i8* nocapture noundef readonly, ...) local_unnamed_addr #3

; Function Attrs: nofree nosync nounwind uwtable
define internal i32 @sum(i32 %0, ...) unnamed_addr #4 {
  %2 = alloca [1 x %struct.__va_list_tag], align 16
  %3 = bitcast [1 x %struct.__va_list_tag]* %2 to i8*
  call void @llvm.lifetime.start.p0i8(i64 24, i8* nonnull %3) #7
  call void @llvm.va_start(i8* nonnull %3)
  %4 = getelementptr inbounds [1 x %struct.__va_list_tag], [1 x %struct.__va_list_tag]* %2, i64 0, i64 0, i32 0
  %5 = getelementptr inbounds [1 x %struct.__va_list_tag], [1 x %struct.__va_list_tag]* %2, i64 0, i64 0, i32 2
  %6 = getelementptr inbounds [1 x %struct.__va_list_tag], [1 x %struct.__va_list_tag]* %2, i64 0, i64 0, i32 3
  %7 = load i8*, i8** %6, align 16
  %8 = load i32, i32* %4, align 16
  %9 = icmp ult i32 %8, 41
  br i1 %9, label %15, label %10

10:                                               ; preds = %1
  %11 = load i8*, i8** %5, align 8
  %12 = getelementptr i8, i8* %11, i64 8
  store i8* %12, i8** %5, align 8
  %13 = bitcast i8* %11 to i32*
  %14 = load i32, i32* %13, align 4
  br label %22

15:                                               ; preds = %1
  %16 = zext i32 %8 to i64
  %17 = getelementptr i8, i8* %7, i64 %16
  %18 = add nuw nsw i32 %8, 8
  store i32 %18, i32* %4, align 16
  %19 = bitcast i8* %17 to i32*
  %20 = load i32, i32* %19, align 4
  %21 = icmp ult i32 %8, 33
  br i1 %21, label %28, label %22

22:                                               ; preds = %15, %10
  %23 = phi i32 [ %14, %10 ], [ %20, %15 ]
  %24 = load i8*, i8** %5, align 8
  %25 = getelementptr i8, i8* %24, i64 8
  store i8* %25, i8** %5, align 8
  %26 = bitcast i8* %24 to i32*
  %27 = load i32, i32* %26, align 4
  br label %35

28:                                               ; preds = %15
  %29 = zext i32 %18 to i64
  %30 = getelementptr i8, i8* %7, i64 %29
  %31 = add nuw nsw i32 %8, 16
  store i32 %31, i32* %4, align 16
  %32 = bitcast i8* %30 to i32*
  %33 = load i32, i32* %32, align 4
  %34 = icmp ult i32 %8, 25
  br i1 %34, label %40, label %35

35:                                               ; preds = %22, %28
  %36 = phi i32 [ %27, %22 ], [ %33, %28 ]
  %37 = phi i32 [ %23, %22 ], [ %20, %28 ]
  %38 = load i8*, i8** %5, align 8
  %39 = getelementptr i8, i8* %38, i64 8
  store i8* %39, i8** %5, align 8
  br label %44

40:                                               ; preds = %28
  %41 = zext i32 %31 to i64
  %42 = getelementptr i8, i8* %7, i64 %41
  %43 = add nuw nsw i32 %8, 24
  store i32 %43, i32* %4, align 16
  br label %44

44:                                               ; preds = %40, %35
  %45 = phi i32 [ %33, %40 ], [ %36, %35 ]
  %46 = phi i32 [ %20, %40 ], [ %37, %35 ]
  %47 = phi i8* [ %42, %40 ], [ %38, %35 ]
  %48 = add nsw i32 %45, %46
  %49 = bitcast i8* %47 to i32*
  %50 = load i32, i32* %49, align 4
  %51 = add nsw i32 %50, %48
  call void @llvm.va_end(i8* nonnull %3)
  call void @llvm.lifetime.end.p0i8(i64 24, i8* nonnull %3) #7
  ret i32 %51
}

; Function Attrs: mustprogress nofree nosync nounwind readnone speculatable willreturn
declare i32 @llvm.ctpop.i32(i32) #5

; Function Attrs: argmemonly mustprogress nofree nosync nounwind willreturn
declare void @llvm.lifetime.end.p0i8(i64 immarg, i8* nocapture) #2

; Function Attrs: mustprogress nofree nosync nounwind willreturn
declare void @llvm.va_start(i8*) #6

; Function Attrs: mustprogress nofree nosync nounwind willreturn
declare void @llvm.va_end(i8*) #6

attributes #0 = { mustprogress nofree norecurse nosync nounwind readnone uwtable willreturn "frame-pointer"="none" "min-legal-vector-width"="0" "no-trapping-math"="true" "stack-protector-buffer-size"="8" "target-cpu"="x86-64" "target-features"="+cx8,+fxsr,+mmx,+sse,+sse2,+x87" "tune-cpu"="generic" }
attributes #1 = { nofree nounwind uwtable "frame-pointer"="none" "min-legal-vector-width"="0" "no-trapping-math"="true" "stack-protector-buffer-size"="8" "target-cpu"="x86-64" "target-features"="+cx8,+fxsr,+mmx,+sse,+sse2,+x87" "tune-cpu"="generic" }
attributes #2 = { argmemonly mustprogress nofree nosync nounwind willreturn }
attributes #3 = { nofree nounwind "frame-pointer"="none" "no-trapping-math"="true" "stack-protector-buffer-size"="8" "target-cpu"="x86-64" "target-features"="+cx8,+fxsr,+mmx,+sse,+sse2,+x87" "tune-cpu"="generic" }
attributes #4 = { nofree nosync nounwind uwtable "frame-pointer"="none" "min-legal-vector-width"="0" "no-trapping-math"="true" "stack-protector-buffer-size"="8" "target-cpu"="x86-64" "target-features"="+cx8,+fxsr,+mmx,+sse,+sse2,+x87" "tune-cpu"="generic" }
attributes #5 = { mustprogress nofree nosync nounwind readnone speculatable willreturn }
attributes #6 = { mustprogress nofree nosync nounwind willreturn }
attributes #7 = { nounwind }

!llvm.module.flags = !{!0, !1, !2, !3}
!llvm.ident = !{!4}

!0 = !{i32 1, !"wchar_size", i32 4}
!1 = !{i32 7, !"PIC Level", i32 2}
!2 = !{i32 7, !"PIE Level", i32 2}
!3 = !{i32 7, !"uwtable", i32 1}
!4 = !{!"Debian clang version 14.0.6"}
!5 = !{i32 0, i32 33}
