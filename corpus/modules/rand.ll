@seed = global i32 0

declare i32 @abs(i32 %x)

define i32 @rand() {
0:
	%1 = load i32, i32* @seed
	%2 = mul i32 %1, 22695477
	%3 = add i32 %2, 1
	store i32 %3, i32* @seed
	%4 = call i32 @abs(i32 %3)
	ret i32 %4
}
