; ModuleID = '/tmp/autogen.bc'
source_filename = "/tmp/autogen.bc"

define void @autogen_SD5(i8* %0, i32* %1, i64* %2, i32 %3, i64 %4, i8 %5) {
BB:
  %A4 = alloca double, align 8
  %A3 = alloca i32, align 4
  %A2 = alloca i16, align 2
  %A1 = alloca i8, align 1
  %A = alloca float, align 4
  %L = load i8, i8* %0, align 1
  store i8 -21, i8* %0, align 1
  %E = extractelement <4 x i64> zeroinitializer, i32 3
  %Shuff = shufflevector <2 x i64> zeroinitializer, <2 x i64> zeroinitializer, <2 x i32> <i32 2, i32 0>
  %I = insertelement <2 x i64> zeroinitializer, i64 -1, i32 0
  %B = urem <2 x i64> %I, %Shuff
  %Sl = select i1 true, i16 7143, i16 0
  %Cmp = fcmp une double 0x84B5B35424B348D2, 0xDDD90978B7D758F6
  br label %CF99

CF99:                                             ; preds = %CF99, %BB
  %L5 = load i8, i8* %0, align 1
  store i8 %L, i8* %0, align 1
  %E6 = extractelement <2 x i64> %Shuff, i32 0
  %Shuff7 = shufflevector <8 x i32> zeroinitializer, <8 x i32> zeroinitializer, <8 x i32> <i32 undef, i32 1, i32 3, i32 undef, i32 7, i32 9, i32 11, i32 undef>
  %I8 = insertelement <8 x i32> zeroinitializer, i32 447983, i32 1
  %B9 = frem double 0x14938E8F347A066, 0x84B5B35424B348D2
  %Tr = trunc i64 %E6 to i32
  %Sl10 = select i1 %Cmp, double 0xDDD90978B7D758F6, double 0x14938E8F347A066
  %Cmp11 = icmp ule <8 x i32> %I8, %Shuff7
  %L12 = load i8, i8* %0, align 1
  store i8 -113, i8* %0, align 1
  %E13 = extractelement <8 x i32> zeroinitializer, i32 2
  %Shuff14 = shufflevector <2 x i64> zeroinitializer, <2 x i64> zeroinitializer, <2 x i32> <i32 1, i32 3>
  %I15 = insertelement <2 x i64> %Shuff, i64 0, i32 1
  %B16 = frem float 0x3FFEF122C0000000, 0x4423F787C0000000
  %Se = sext i8 -21 to i32
  %Sl17 = select i1 true, float 0x3F2FF193C0000000, float 0xBE14701840000000
  %Cmp18 = icmp ne i64 -1, %4
  br i1 %Cmp18, label %CF99, label %CF102

CF102:                                            ; preds = %CF99
  %L19 = load i32, i32* %A3, align 4
  store i8 %L12, i8* %A1, align 1
  %E20 = extractelement <2 x i64> %Shuff, i32 1
  %Shuff21 = shufflevector <2 x i64> zeroinitializer, <2 x i64> %I15, <2 x i32> <i32 0, i32 2>
  %I22 = insertelement <2 x i64> %Shuff21, i64 %E, i32 0
  %B23 = xor i64 0, %E20
  %Se24 = sext <8 x i32> zeroinitializer to <8 x i64>
  %Sl25 = select i1 true, float 0x3A78EC1CC0000000, float 0x4423F787C0000000
  %Cmp26 = icmp eq i16 %Sl, 0
  br label %CF97

CF97:                                             ; preds = %CF97, %CF104, %CF102
  %L27 = load i8, i8* %0, align 1
  store i8 %L27, i8* %0, align 1
  %E28 = extractelement <8 x i1> %Cmp11, i32 3
  br i1 %E28, label %CF97, label %CF104

CF104:                                            ; preds = %CF97
  %Shuff29 = shufflevector <2 x i64> zeroinitializer, <2 x i64> %Shuff14, <2 x i32> <i32 2, i32 0>
  %I30 = insertelement <2 x i64> %Shuff14, i64 %E20, i32 0
  %B31 = frem float 0x3A78EC1CC0000000, 0x3FFEF122C0000000
  %Tr32 = trunc <2 x i64> %I22 to <2 x i8>
  %Sl33 = select i1 true, float %Sl25, float 0x4423F787C0000000
  %Cmp34 = icmp ult i8 %L27, -113
  br i1 %Cmp34, label %CF97, label %CF101

CF101:                                            ; preds = %CF101, %CF104
  %L35 = load i8, i8* %0, align 1
  store i16 0, i16* %A2, align 2
  %E36 = extractelement <2 x i64> %Shuff, i32 0
  %Shuff37 = shufflevector <2 x i64> %Shuff21, <2 x i64> %Shuff, <2 x i32> <i32 3, i32 1>
  %I38 = insertelement <4 x i32> zeroinitializer, i32 447983, i32 1
  %B39 = lshr i32 447983, %E13
  %FC = fptoui float 0x3A78EC1CC0000000 to i16
  %Sl40 = select i1 true, i1 true, i1 true
  br i1 %Sl40, label %CF101, label %CF105

CF105:                                            ; preds = %CF101
  %Cmp41 = icmp ule <2 x i64> %I15, %Shuff
  %L42 = load i8, i8* %0, align 1
  store i8 -113, i8* %0, align 1
  %E43 = extractelement <8 x i1> %Cmp11, i32 3
  br label %CF96

CF96:                                             ; preds = %CF96, %CF105
  %Shuff44 = shufflevector <2 x i64> zeroinitializer, <2 x i64> %Shuff14, <2 x i32> <i32 2, i32 0>
  %I45 = insertelement <2 x i64> zeroinitializer, i64 %E6, i32 0
  %Tr46 = trunc i16 0 to i1
  br i1 %Tr46, label %CF96, label %CF103

CF103:                                            ; preds = %CF96
  %Sl47 = select i1 true, i8 %L12, i8 %L42
  %Cmp48 = icmp uge <1 x i1> zeroinitializer, zeroinitializer
  %L49 = load i8, i8* %0, align 1
  store i8 %L27, i8* %0, align 1
  %E50 = extractelement <8 x i32> %Shuff7, i32 4
  %Shuff51 = shufflevector <2 x i64> %I30, <2 x i64> %Shuff37, <2 x i32> <i32 3, i32 1>
  %I52 = insertelement <8 x i32> %Shuff7, i32 437851, i32 5
  %B53 = fadd double %B9, 0x84B5B35424B348D2
  %Sl54 = select i1 true, <2 x i64> %Shuff29, <2 x i64> %I45
  %Cmp55 = icmp uge <2 x i64> %I30, %Shuff
  %L56 = load i8, i8* %0, align 1
  store i8 %L27, i8* %0, align 1
  %E57 = extractelement <2 x i64> %Sl54, i32 1
  %Shuff58 = shufflevector <2 x i64> %Shuff21, <2 x i64> %Shuff21, <2 x i32> <i32 0, i32 2>
  %I59 = insertelement <2 x i64> %I15, i64 -1, i32 0
  %B60 = xor <4 x i32> %I38, %I38
  %Tr61 = trunc <8 x i32> %I52 to <8 x i1>
  %Sl62 = select i1 %Tr46, i8 %L42, i8 %Sl47
  %Cmp63 = icmp slt <2 x i1> %Cmp55, %Cmp41
  %L64 = load i8, i8* %0, align 1
  store i8 -113, i8* %0, align 1
  %E65 = extractelement <2 x i64> %I45, i32 0
  %Shuff66 = shufflevector <8 x i1> %Tr61, <8 x i1> %Tr61, <8 x i32> <i32 9, i32 11, i32 13, i32 15, i32 1, i32 undef, i32 5, i32 7>
  %I67 = insertelement <2 x i64> %Shuff37, i64 104059, i32 1
  %B68 = add <2 x i64> %Shuff29, %Shuff
  %FC69 = fptoui double 0xDDD90978B7D758F6 to i8
  %Sl70 = select i1 %E28, i32 %3, i32 %B39
  %Cmp71 = icmp ne <2 x i64> %Shuff21, %I30
  %L72 = load i8, i8* %0, align 1
  store i8 %L27, i8* %0, align 1
  %E73 = extractelement <2 x i64> %Shuff21, i32 1
  %Shuff74 = shufflevector <2 x i64> %Shuff21, <2 x i64> %I45, <2 x i32> <i32 undef, i32 2>
  %I75 = insertelement <2 x i64> %Shuff14, i64 %E57, i32 0
  %B76 = and i64 %E36, %E20
  %Tr77 = trunc <2 x i64> %Shuff37 to <2 x i1>
  %Sl78 = select i1 true, i1 %Tr46, i1 %Cmp18
  br label %CF

CF:                                               ; preds = %CF, %CF103
  %Cmp79 = icmp ugt i32 %B39, %Se
  br i1 %Cmp79, label %CF, label %CF98

CF98:                                             ; preds = %CF98, %CF
  %L80 = load i8, i8* %0, align 1
  store i8 %L5, i8* %0, align 1
  %E81 = extractelement <8 x i32> %Shuff7, i32 2
  %Shuff82 = shufflevector <2 x i1> %Cmp41, <2 x i1> %Cmp41, <2 x i32> undef
  %I83 = insertelement <4 x i8> zeroinitializer, i8 %L27, i32 3
  %B84 = sub <4 x i64> zeroinitializer, zeroinitializer
  %FC85 = sitofp <8 x i1> %Shuff66 to <8 x double>
  %Sl86 = select i1 true, i64 %E, i64 -1
  %Cmp87 = icmp ule i64 %E57, %E
  br i1 %Cmp87, label %CF98, label %CF100

CF100:                                            ; preds = %CF100, %CF98
  %L88 = load i8, i8* %0, align 1
  store i8 %L12, i8* %0, align 1
  %E89 = extractelement <8 x i1> %Cmp11, i32 0
  br i1 %E89, label %CF100, label %CF106

CF106:                                            ; preds = %CF100
  %Shuff90 = shufflevector <2 x i1> %Cmp41, <2 x i1> %Cmp41, <2 x i32> <i32 3, i32 undef>
  %I91 = insertelement <4 x i32> zeroinitializer, i32 %B39, i32 1
  %B92 = or <4 x i8> zeroinitializer, %I83
  %Tr93 = trunc i64 %Sl86 to i32
  %Sl94 = select i1 %Sl40, i32 %B39, i32 %Tr
  %Cmp95 = icmp sgt <4 x i64> zeroinitializer, zeroinitializer
  store i8 -113, i8* %0, align 1
  store i8 %Sl62, i8* %0, align 1
  store i8 %L42, i8* %0, align 1
  store i8 %L56, i8* %0, align 1
  store float 0x4423F787C0000000, float* %A, align 4
  ret void
}
