define void @f() {
0:
	%1 = add i32 1, 2
	%2 = fadd double 3.0, 4.0
	%3 = sub i32 5, 6
	%4 = fsub double 7.0, 8.0
	%5 = mul i32 9, 10
	%6 = fmul double 11.0, 12.0
	%7 = udiv i32 13, 14
	%8 = sdiv i32 15, 16
	%9 = fdiv double 17.0, 18.0
	%10 = urem i32 19, 20
	%11 = srem i32 21, 22
	%12 = frem double 23.0, 24.0
	ret void
}
