; ModuleID = '/tmp/autogen.bc'
source_filename = "/tmp/autogen.bc"

define void @autogen_SD6(i8* %0, i32* %1, i64* %2, i32 %3, i64 %4, i8 %5) {
BB:
  %A4 = alloca <4 x i64>, align 32
  %A3 = alloca <8 x i1>, align 1
  %A2 = alloca <1 x i16>, align 2
  %A1 = alloca <4 x i16>, align 8
  %A = alloca <16 x double>, align 128
  %L = load i8, i8* %0, align 1
  store i8 0, i8* %0, align 1
  %E = extractelement <2 x i64> zeroinitializer, i32 0
  %Shuff = shufflevector <8 x i1> zeroinitializer, <8 x i1> zeroinitializer, <8 x i32> <i32 undef, i32 5, i32 7, i32 9, i32 11, i32 undef, i32 15, i32 1>
  %I = insertelement <8 x i64> zeroinitializer, i64 336035, i32 5
  %B = and <2 x i32> zeroinitializer, zeroinitializer
  %Tr = trunc i64 %E to i32
  %Sl = select i1 false, <4 x i64>* %A4, <4 x i64>* %A4
  %Cmp = icmp uge <2 x i64> zeroinitializer, zeroinitializer
  %L5 = load <4 x i64>, <4 x i64>* %Sl, align 32
  store <4 x i64> zeroinitializer, <4 x i64>* %Sl, align 32
  %E6 = extractelement <8 x i1> %Shuff, i32 6
  br label %CF90

CF90:                                             ; preds = %BB
  %Shuff7 = shufflevector <2 x i64> zeroinitializer, <2 x i64> zeroinitializer, <2 x i32> undef
  %I8 = insertelement <16 x i32> zeroinitializer, i32 -1, i32 15
  %B9 = sub i16 7771, 27339
  %Sl10 = select i1 %E6, i64* %2, i64* %2
  %L11 = load <4 x i64>, <4 x i64>* %Sl, align 32
  %E12 = extractelement <2 x i32> zeroinitializer, i32 1
  %Shuff13 = shufflevector <8 x i1> %Shuff, <8 x i1> zeroinitializer, <8 x i32> <i32 undef, i32 undef, i32 8, i32 10, i32 12, i32 14, i32 undef, i32 2>
  %I14 = insertelement <8 x i32> zeroinitializer, i32 -1, i32 6
  %B15 = shl <16 x i32> zeroinitializer, zeroinitializer
  %Tr16 = trunc i32 -1 to i1
  br label %CF88

CF88:                                             ; preds = %CF88, %CF90
  %Sl17 = select i1 false, i64* %Sl10, i64* %Sl10
  %Cmp18 = icmp uge i1 true, false
  br i1 %Cmp18, label %CF88, label %CF92

CF92:                                             ; preds = %CF88
  %L19 = load <4 x i64>, <4 x i64>* %Sl, align 32
  store <4 x i64> zeroinitializer, <4 x i64>* %Sl, align 32
  %E20 = extractelement <2 x i64> zeroinitializer, i32 1
  %Shuff21 = shufflevector <2 x i64> zeroinitializer, <2 x i64> zeroinitializer, <2 x i32> <i32 2, i32 0>
  %I22 = insertelement <4 x i64> zeroinitializer, i64 %4, i32 0
  %B23 = add i8 0, %5
  %ZE = zext i1 false to i32
  %Sl24 = select i1 %E6, <2 x i64> %Shuff21, <2 x i64> %Shuff7
  %Cmp25 = icmp ult i32 %E12, 1879
  br label %CF

CF:                                               ; preds = %CF, %CF95, %CF92
  %L26 = load <4 x i64>, <4 x i64>* %Sl, align 32
  store <4 x i64> zeroinitializer, <4 x i64>* %Sl, align 32
  %E27 = extractelement <4 x i64> %I22, i32 3
  %Shuff28 = shufflevector <4 x i64> %L19, <4 x i64> zeroinitializer, <4 x i32> <i32 6, i32 0, i32 2, i32 4>
  %I29 = insertelement <8 x i1> %Shuff, i1 %Tr16, i32 0
  %B30 = srem i16 27339, 27339
  %FC = fptosi float 0x3E4D6B9140000000 to i8
  %Sl31 = select i1 %E6, i16 %B9, i16 %B30
  %Cmp32 = icmp ne <2 x i64> %Shuff7, %Sl24
  %L33 = load <4 x i64>, <4 x i64>* %Sl, align 32
  store <4 x i64> zeroinitializer, <4 x i64>* %Sl, align 32
  %E34 = extractelement <16 x i32> zeroinitializer, i32 2
  %Shuff35 = shufflevector <2 x i1> %Cmp32, <2 x i1> %Cmp32, <2 x i32> <i32 undef, i32 3>
  %I36 = insertelement <2 x i64> zeroinitializer, i64 %E, i32 1
  %PC = bitcast i64* %2 to float*
  %Sl37 = select i1 %Cmp18, <2 x i64> %Shuff21, <2 x i64> %Shuff7
  %Cmp38 = icmp slt <8 x i1> zeroinitializer, %Shuff13
  %L39 = load <4 x i64>, <4 x i64>* %Sl, align 32
  store float 0x4468E20CC0000000, float* %PC, align 4
  %E40 = extractelement <4 x i64> %L11, i32 3
  %Shuff41 = shufflevector <2 x i64> zeroinitializer, <2 x i64> zeroinitializer, <2 x i32> <i32 undef, i32 0>
  %I42 = insertelement <2 x i1> %Cmp32, i1 %E6, i32 0
  %B43 = xor i64 336035, 336035
  %Se = sext <8 x i1> %Shuff13 to <8 x i32>
  %Sl44 = select i1 %E6, i8 %FC, i8 %B23
  %Cmp45 = icmp ugt <8 x i32> zeroinitializer, zeroinitializer
  %L46 = load float, float* %PC, align 4
  store i64 %E20, i64* %2, align 4
  %E47 = extractelement <8 x i1> zeroinitializer, i32 1
  br i1 %E47, label %CF, label %CF95

CF95:                                             ; preds = %CF
  %Shuff48 = shufflevector <4 x i64> %Shuff28, <4 x i64> %L26, <4 x i32> <i32 4, i32 6, i32 0, i32 2>
  %I49 = insertelement <4 x i64> %L11, i64 90463, i32 2
  %FC50 = sitofp <4 x i64> zeroinitializer to <4 x float>
  %Sl51 = select i1 false, <4 x i64> %L11, <4 x i64> zeroinitializer
  %L52 = load i8, i8* %0, align 1
  store <4 x i64> zeroinitializer, <4 x i64>* %Sl, align 32
  %E53 = extractelement <4 x float> %FC50, i32 2
  %Shuff54 = shufflevector <2 x i32> %B, <2 x i32> zeroinitializer, <2 x i32> <i32 1, i32 3>
  %I55 = insertelement <2 x i32> zeroinitializer, i32 -1, i32 1
  %FC56 = uitofp <2 x i32> zeroinitializer to <2 x double>
  %Sl57 = select i1 %E47, i1 %Cmp25, i1 %E47
  br i1 %Sl57, label %CF, label %CF89

CF89:                                             ; preds = %CF89, %CF95
  %L58 = load i64, i64* %Sl17, align 4
  store <4 x i64> %L5, <4 x i64>* %Sl, align 32
  %E59 = extractelement <2 x i1> %Cmp32, i32 0
  br i1 %E59, label %CF89, label %CF91

CF91:                                             ; preds = %CF91, %CF94, %CF89
  %Shuff60 = shufflevector <2 x i64> zeroinitializer, <2 x i64> %Shuff7, <2 x i32> <i32 1, i32 undef>
  %I61 = insertelement <2 x i64> zeroinitializer, i64 445711, i32 1
  %B62 = ashr i64 %E40, %E20
  %Sl63 = select <2 x i1> %Cmp, <2 x i32> %Shuff54, <2 x i32> %B
  %Cmp64 = icmp ne <8 x i1> %I29, %Cmp45
  %L65 = load <16 x double>, <16 x double>* %A, align 128
  store i8 0, i8* %0, align 1
  %E66 = extractelement <2 x i64> zeroinitializer, i32 0
  %Shuff67 = shufflevector <2 x i64> zeroinitializer, <2 x i64> %Shuff7, <2 x i32> <i32 undef, i32 1>
  %I68 = insertelement <4 x i64> %L26, i64 %L58, i32 1
  %B69 = ashr <2 x i32> %I55, zeroinitializer
  %FC70 = uitofp i64 %L58 to float
  %Sl71 = select i1 %Tr16, i32 %E34, i32 %3
  %Cmp72 = icmp eq i1 false, %E6
  br i1 %Cmp72, label %CF91, label %CF94

CF94:                                             ; preds = %CF91
  %L73 = load <4 x i64>, <4 x i64>* %Sl, align 32
  store float 0xBBF6F31AC0000000, float* %PC, align 4
  %E74 = extractelement <16 x i32> zeroinitializer, i32 11
  %Shuff75 = shufflevector <4 x i64> %L5, <4 x i64> %L11, <4 x i32> <i32 undef, i32 0, i32 2, i32 4>
  %I76 = insertelement <2 x i32> zeroinitializer, i32 %Sl71, i32 0
  %Tr77 = trunc <4 x i64> %I68 to <4 x i1>
  %Sl78 = select i1 %E6, i1 %Cmp18, i1 %E6
  br i1 %Sl78, label %CF91, label %CF93

CF93:                                             ; preds = %CF94
  %Cmp79 = icmp uge <8 x i32> %Se, %Se
  %L80 = load <4 x i64>, <4 x i64>* %Sl, align 32
  store <1 x i16> zeroinitializer, <1 x i16>* %A2, align 2
  %E81 = extractelement <2 x i64> %Sl37, i32 0
  %Shuff82 = shufflevector <2 x i64> %Shuff60, <2 x i64> %I36, <2 x i32> <i32 3, i32 1>
  %I83 = insertelement <16 x i32> zeroinitializer, i32 %Sl71, i32 5
  %B84 = and i64 336035, %L58
  %Tr85 = trunc <4 x i64> %L39 to <4 x i16>
  %Sl86 = select i1 false, i8* %0, i8* %0
  %Cmp87 = icmp sge <2 x i64> %I61, %I36
  store i8 %5, i8* %Sl86, align 1
  store i8 %FC, i8* %Sl86, align 1
  store i8 %5, i8* %Sl86, align 1
  store <4 x i64> %L5, <4 x i64>* %Sl, align 32
  store i8 0, i8* %Sl86, align 1
  ret void
}
