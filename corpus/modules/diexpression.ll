!bar = !{!DIExpression(42)}
!baz = !{!DIExpression(42, DW_OP_addr)}
!foo = !{!DIExpression()}
