; ModuleID = '/tmp/autogen.bc'
source_filename = "/tmp/autogen.bc"

define void @autogen_SD1(i8* %0, i32* %1, i64* %2, i32 %3, i64 %4, i8 %5) {
BB:
  %A4 = alloca i1, align 1
  %A3 = alloca double, align 8
  %A2 = alloca i32, align 4
  %A1 = alloca float, align 4
  %A = alloca float, align 4
  %L = load i8, i8* %0, align 1
  store i8 -1, i8* %0, align 1
  %E = extractelement <16 x i16> zeroinitializer, i32 7
  %Shuff = shufflevector <1 x i1> zeroinitializer, <1 x i1> zeroinitializer, <1 x i32> zeroinitializer
  %I = insertelement <1 x i1> zeroinitializer, i1 true, i32 0
  %Se = sext i8 %5 to i16
  %Sl = select i1 true, float 0xBAB474B840000000, float 0xC5B06AB440000000
  %Cmp = fcmp une double 0x5BED708C47EB520A, 0x5BED708C47EB520A
  br label %CF95

CF95:                                             ; preds = %CF95, %BB
  %L5 = load i8, i8* %0, align 1
  store i8 %L, i8* %0, align 1
  %E6 = extractelement <1 x i16> zeroinitializer, i32 0
  %Shuff7 = shufflevector <1 x i64> zeroinitializer, <1 x i64> zeroinitializer, <1 x i32> zeroinitializer
  %I8 = insertelement <2 x i8> zeroinitializer, i8 %5, i32 0
  %B = add <4 x i64> zeroinitializer, zeroinitializer
  %Tr = trunc <1 x i64> zeroinitializer to <1 x i1>
  %Sl9 = select i1 true, i8* %0, i8* %0
  %Cmp10 = icmp sge i1 false, true
  br i1 %Cmp10, label %CF95, label %CF101

CF101:                                            ; preds = %CF95
  %L11 = load i8, i8* %Sl9, align 1
  store i8 -1, i8* %Sl9, align 1
  %E12 = extractelement <1 x i1> %Shuff, i32 0
  br label %CF89

CF89:                                             ; preds = %CF89, %CF101
  %Shuff13 = shufflevector <1 x i1> zeroinitializer, <1 x i1> zeroinitializer, <1 x i32> <i32 1>
  %I14 = insertelement <1 x i16> zeroinitializer, i16 -3017, i32 0
  %Sl15 = select i1 true, double* %A3, double* %A3
  %Cmp16 = icmp sge i8 %L5, %L11
  br i1 %Cmp16, label %CF89, label %CF92

CF92:                                             ; preds = %CF89
  %L17 = load i8, i8* %Sl9, align 1
  store i8 %L5, i8* %Sl9, align 1
  %E18 = extractelement <1 x i16> zeroinitializer, i32 0
  %Shuff19 = shufflevector <1 x i64> %Shuff7, <1 x i64> zeroinitializer, <1 x i32> undef
  %I20 = insertelement <1 x i64> zeroinitializer, i64 %4, i32 0
  %PC = bitcast double* %A3 to i32*
  %Sl21 = select i1 %Cmp, i64 17763, i64 %4
  %Cmp22 = fcmp olt float %Sl, 0x4582EBA6C0000000
  br label %CF

CF:                                               ; preds = %CF, %CF96, %CF94, %CF91, %CF92
  %L23 = load i8, i8* %Sl9, align 1
  store double 0x5BED708C47EB520A, double* %Sl15, align 8
  %E24 = extractelement <1 x i16> zeroinitializer, i32 0
  %Shuff25 = shufflevector <2 x i8> zeroinitializer, <2 x i8> %I8, <2 x i32> <i32 0, i32 2>
  %I26 = insertelement <1 x i1> zeroinitializer, i1 true, i32 0
  %Se27 = sext i8 -1 to i16
  %Sl28 = select i1 true, float 0xC43273B640000000, float 0x3A96E9BAC0000000
  %L29 = load i32, i32* %PC, align 4
  store double 0x5BED708C47EB520A, double* %Sl15, align 8
  %E30 = extractelement <1 x i64> %Shuff19, i32 0
  %Shuff31 = shufflevector <1 x i64> %Shuff7, <1 x i64> %Shuff7, <1 x i32> <i32 1>
  %I32 = insertelement <1 x i1> zeroinitializer, i1 false, i32 0
  %Sl33 = select i1 %Cmp22, i8 0, i8 %L23
  %Cmp34 = fcmp oge float 0xC43273B640000000, %Sl28
  br i1 %Cmp34, label %CF, label %CF96

CF96:                                             ; preds = %CF
  %L35 = load i8, i8* %Sl9, align 1
  store i8 %L17, i8* %0, align 1
  %E36 = extractelement <1 x i16> zeroinitializer, i32 0
  %Shuff37 = shufflevector <1 x i16> zeroinitializer, <1 x i16> %I14, <1 x i32> undef
  %I38 = insertelement <1 x i1> zeroinitializer, i1 true, i32 0
  %B39 = lshr i8 %L, %L17
  %Tr40 = trunc <1 x i64> %I20 to <1 x i16>
  %Sl41 = select i1 %Cmp16, i64 17763, i64 %4
  %Cmp42 = icmp sgt i64 %E30, 17763
  br i1 %Cmp42, label %CF, label %CF94

CF94:                                             ; preds = %CF96
  %L43 = load i1, i1* %A4, align 1
  br i1 %L43, label %CF, label %CF88

CF88:                                             ; preds = %CF88, %CF99, %CF94
  store i8 %5, i8* %Sl9, align 1
  %E44 = extractelement <2 x i8> %Shuff25, i32 1
  %Shuff45 = shufflevector <1 x i64> %Shuff19, <1 x i64> zeroinitializer, <1 x i32> undef
  %I46 = insertelement <1 x i1> %I38, i1 true, i32 0
  %B47 = udiv i32 394359, %L29
  %ZE = fpext float 0x3FE9602D40000000 to double
  %Sl48 = select i1 %Cmp22, i8 %B39, i8 %L
  %L49 = load i8, i8* %Sl9, align 1
  store i8 %L, i8* %Sl9, align 1
  %E50 = extractelement <1 x i16> %Shuff37, i32 0
  %Shuff51 = shufflevector <1 x i1> zeroinitializer, <1 x i1> %I38, <1 x i32> undef
  %I52 = insertelement <1 x i16> zeroinitializer, i16 %E24, i32 0
  %B53 = fdiv float %Sl, 0x4582EBA6C0000000
  %Tr54 = trunc i16 %E to i1
  br i1 %Tr54, label %CF88, label %CF98

CF98:                                             ; preds = %CF98, %CF88
  %Sl55 = select i1 %Cmp, float 0xC5B06AB440000000, float %B53
  %Cmp56 = icmp ule i1 %Tr54, %Cmp16
  br i1 %Cmp56, label %CF98, label %CF99

CF99:                                             ; preds = %CF98
  %L57 = load i8, i8* %Sl9, align 1
  store i8 %L, i8* %Sl9, align 1
  %E58 = extractelement <4 x i1> zeroinitializer, i32 2
  br i1 %E58, label %CF88, label %CF90

CF90:                                             ; preds = %CF90, %CF97, %CF99
  %Shuff59 = shufflevector <1 x i16> zeroinitializer, <1 x i16> %Shuff37, <1 x i32> undef
  %I60 = insertelement <1 x i64> %Shuff45, i64 %4, i32 0
  %B61 = srem <1 x i16> %Tr40, zeroinitializer
  %FC = fptoui double 0x87FDF09C1BFB7A1A to i32
  %Sl62 = select i1 %Cmp, i32 %3, i32 394359
  %Cmp63 = fcmp oeq float %Sl55, %Sl28
  br i1 %Cmp63, label %CF90, label %CF97

CF97:                                             ; preds = %CF90
  %L64 = load i8, i8* %0, align 1
  store i8 -1, i8* %Sl9, align 1
  %E65 = extractelement <1 x i64> %Shuff19, i32 0
  %Shuff66 = shufflevector <1 x i16> %B61, <1 x i16> %Shuff37, <1 x i32> zeroinitializer
  %I67 = insertelement <1 x i16> zeroinitializer, i16 %E50, i32 0
  %B68 = ashr i32 %3, 394359
  %Tr69 = trunc <1 x i64> %I20 to <1 x i16>
  %Sl70 = select i1 true, i1 %Cmp22, i1 %E12
  br i1 %Sl70, label %CF90, label %CF91

CF91:                                             ; preds = %CF97
  %Cmp71 = icmp uge i1 %Cmp56, true
  br i1 %Cmp71, label %CF, label %CF86

CF86:                                             ; preds = %CF86, %CF100, %CF91
  %L72 = load i8, i8* %0, align 1
  store i8 %L11, i8* %0, align 1
  %E73 = extractelement <1 x i64> %Shuff31, i32 0
  %Shuff74 = shufflevector <1 x i16> zeroinitializer, <1 x i16> %Shuff59, <1 x i32> <i32 1>
  %I75 = insertelement <2 x i16> zeroinitializer, i16 %Se, i32 1
  %PC76 = bitcast double* %Sl15 to i16*
  %Sl77 = select i1 %Cmp56, i1 %Sl70, i1 %Cmp10
  br i1 %Sl77, label %CF86, label %CF93

CF93:                                             ; preds = %CF93, %CF86
  %Cmp78 = icmp ne i1 %E58, %E58
  br i1 %Cmp78, label %CF93, label %CF100

CF100:                                            ; preds = %CF93
  %L79 = load i32, i32* %PC, align 4
  store i8 %L57, i8* %Sl9, align 1
  %E80 = extractelement <1 x i1> %Shuff, i32 0
  br i1 %E80, label %CF86, label %CF87

CF87:                                             ; preds = %CF87, %CF100
  %Shuff81 = shufflevector <2 x i16> zeroinitializer, <2 x i16> zeroinitializer, <2 x i32> <i32 3, i32 undef>
  %I82 = insertelement <1 x i16> %Shuff59, i16 -3017, i32 0
  %FC83 = sitofp i16 231 to double
  %Sl84 = select i1 %Cmp, double 0x87FDF09C1BFB7A1A, double 0x5BED708C47EB520A
  %Cmp85 = icmp ult i64 %E73, %Sl21
  br i1 %Cmp85, label %CF87, label %CF102

CF102:                                            ; preds = %CF87
  store i16 -3017, i16* %PC76, align 2
  store i16 231, i16* %PC76, align 2
  store i16 -3017, i16* %PC76, align 2
  store i32 %B47, i32* %A2, align 4
  store i8 %L72, i8* %Sl9, align 1
  ret void
}
