; ModuleID = '/tmp/autogen.bc'
source_filename = "/tmp/autogen.bc"

define void @autogen_SD3(i8* %0, i32* %1, i64* %2, i32 %3, i64 %4, i8 %5) {
BB:
  %A4 = alloca i16, align 2
  %A3 = alloca i1, align 1
  %A2 = alloca float, align 4
  %A1 = alloca i32, align 4
  %A = alloca i64, align 8
  %L = load i8, i8* %0, align 1
  store i8 %5, i8* %0, align 1
  %E = extractelement <4 x i1> zeroinitializer, i32 2
  br label %CF94

CF94:                                             ; preds = %CF94, %CF97, %BB
  %Shuff = shufflevector <2 x i64> zeroinitializer, <2 x i64> zeroinitializer, <2 x i32> <i32 1, i32 3>
  %I = insertelement <2 x i64> zeroinitializer, i64 64481, i32 1
  %B = urem <2 x i64> zeroinitializer, %Shuff
  %Sl = select i1 true, double 0x2E7BAC9ACD790118, double 0xE4D3B0F29FD12170
  %Cmp = icmp ult i1 %E, true
  br i1 %Cmp, label %CF94, label %CF96

CF96:                                             ; preds = %CF96, %CF99, %CF100, %CF94
  %L5 = load i64, i64* %2, align 4
  store i8 %L, i8* %0, align 1
  %E6 = extractelement <2 x i64> zeroinitializer, i32 0
  %Shuff7 = shufflevector <2 x i16> zeroinitializer, <2 x i16> zeroinitializer, <2 x i32> <i32 undef, i32 3>
  %I8 = insertelement <2 x i16> %Shuff7, i16 0, i32 1
  %FC = sitofp i8 %L to double
  %Sl9 = select i1 %E, i32 39241, i32 %3
  %Cmp10 = icmp ne <2 x i8> zeroinitializer, zeroinitializer
  %L11 = load i8, i8* %0, align 1
  store i8 %L, i8* %0, align 1
  %E12 = extractelement <2 x i16> %Shuff7, i32 0
  %Shuff13 = shufflevector <2 x i1> %Cmp10, <2 x i1> %Cmp10, <2 x i32> <i32 3, i32 1>
  %I14 = insertelement <2 x i64> %I, i64 64481, i32 1
  %B15 = sdiv <2 x i32> zeroinitializer, zeroinitializer
  %Tr = trunc <2 x i64> %Shuff to <2 x i32>
  %Sl16 = select i1 true, i16 %E12, i16 %E12
  %Cmp17 = icmp slt i16 %Sl16, 0
  br i1 %Cmp17, label %CF96, label %CF99

CF99:                                             ; preds = %CF96
  %L18 = load i1, i1* %A3, align 1
  br i1 %L18, label %CF96, label %CF98

CF98:                                             ; preds = %CF98, %CF99
  store i8 %L, i8* %0, align 1
  %E19 = extractelement <4 x i64> zeroinitializer, i32 1
  %Shuff20 = shufflevector <2 x i64> %Shuff, <2 x i64> %I14, <2 x i32> <i32 0, i32 2>
  %I21 = insertelement <2 x i16> zeroinitializer, i16 %Sl16, i32 0
  %FC22 = sitofp <2 x i32> %Tr to <2 x double>
  %Sl23 = select i1 %E, <2 x i32> zeroinitializer, <2 x i32> %B15
  %Cmp24 = fcmp oge float 0x422D262100000000, 0x40E6301A00000000
  br i1 %Cmp24, label %CF98, label %CF100

CF100:                                            ; preds = %CF98
  %L25 = load i8, i8* %0, align 1
  store i8 %L25, i8* %0, align 1
  %E26 = extractelement <4 x i64> zeroinitializer, i32 3
  %Shuff27 = shufflevector <2 x i1> %Cmp10, <2 x i1> %Cmp10, <2 x i32> <i32 2, i32 0>
  %I28 = insertelement <2 x i64> %Shuff20, i64 106597, i32 0
  %B29 = fdiv float 0x40E6301A00000000, 0x40E6301A00000000
  %ZE = zext i1 true to i32
  %Sl30 = select i1 true, <2 x i1> %Shuff13, <2 x i1> %Shuff27
  %Cmp31 = icmp ne i8 %L11, %L11
  br i1 %Cmp31, label %CF96, label %CF97

CF97:                                             ; preds = %CF100
  %L32 = load i64, i64* %A, align 4
  store i8 %5, i8* %0, align 1
  %E33 = extractelement <2 x i64> zeroinitializer, i32 1
  %Shuff34 = shufflevector <16 x i8> zeroinitializer, <16 x i8> zeroinitializer, <16 x i32> <i32 18, i32 undef, i32 undef, i32 24, i32 26, i32 28, i32 30, i32 0, i32 2, i32 4, i32 6, i32 undef, i32 undef, i32 12, i32 14, i32 16>
  %I35 = insertelement <2 x i64> %Shuff, i64 106597, i32 0
  %B36 = add i8 %L, %5
  %FC37 = uitofp <2 x i8> zeroinitializer to <2 x double>
  %Sl38 = select i1 true, i1 %Cmp31, i1 %Cmp31
  br i1 %Sl38, label %CF94, label %CF95

CF95:                                             ; preds = %CF97
  %Cmp39 = icmp uge <2 x i16> zeroinitializer, zeroinitializer
  %L40 = load i8, i8* %0, align 1
  store i8 %L, i8* %0, align 1
  %E41 = extractelement <2 x i16> zeroinitializer, i32 1
  %Shuff42 = shufflevector <4 x i64> zeroinitializer, <4 x i64> zeroinitializer, <4 x i32> <i32 4, i32 6, i32 0, i32 2>
  %I43 = insertelement <1 x i16> zeroinitializer, i16 0, i32 0
  %B44 = fdiv float 0x40D1A46580000000, %B29
  %Se = sext <2 x i1> %Cmp39 to <2 x i64>
  %Sl45 = select i1 true, i8* %0, i8* %0
  %Cmp46 = icmp ugt <4 x i1> zeroinitializer, zeroinitializer
  %L47 = load i8, i8* %Sl45, align 1
  store i8 %L, i8* %Sl45, align 1
  %E48 = extractelement <2 x i16> zeroinitializer, i32 1
  %Shuff49 = shufflevector <2 x i64> %Shuff, <2 x i64> %Se, <2 x i32> <i32 2, i32 0>
  %I50 = insertelement <2 x double> %FC22, double 0xF413D032CF1160B0, i32 0
  %B51 = add i16 %Sl16, %E12
  %Se52 = sext <2 x i16> %I8 to <2 x i32>
  %Sl53 = select i1 true, i64 %L32, i64 106597
  %Cmp54 = icmp sgt <2 x i64> %Shuff20, %I14
  %L55 = load i8, i8* %Sl45, align 1
  store i8 %5, i8* %Sl45, align 1
  %E56 = extractelement <4 x i64> %Shuff42, i32 1
  %Shuff57 = shufflevector <2 x i64> zeroinitializer, <2 x i64> %I35, <2 x i32> <i32 0, i32 2>
  %I58 = insertelement <2 x i1> %Shuff27, i1 %E, i32 0
  %B59 = xor <16 x i8> zeroinitializer, %Shuff34
  %Tr60 = trunc <2 x i64> %Shuff20 to <2 x i8>
  %Sl61 = select i1 true, i8 %5, i8 %L11
  %Cmp62 = icmp uge <16 x i8> %Shuff34, %Shuff34
  %L63 = load i8, i8* %Sl45, align 1
  store i8 %L40, i8* %Sl45, align 1
  %E64 = extractelement <4 x i64> %Shuff42, i32 2
  %Shuff65 = shufflevector <2 x i1> %Sl30, <2 x i1> %Cmp10, <2 x i32> <i32 1, i32 3>
  %I66 = insertelement <2 x i64> %Shuff49, i64 %L32, i32 1
  %B67 = sub <2 x i64> %I, %Shuff57
  %Se68 = sext i8 %L25 to i64
  %Sl69 = select i1 true, i64 %L5, i64 %L32
  %Cmp70 = icmp sgt <2 x i64> %Se, %I35
  %L71 = load i8, i8* %Sl45, align 1
  store i8 %L, i8* %0, align 1
  %E72 = extractelement <2 x i64> %Shuff, i32 1
  %Shuff73 = shufflevector <2 x i64> %Shuff20, <2 x i64> %Shuff, <2 x i32> <i32 0, i32 2>
  %I74 = insertelement <2 x i64> %B, i64 %Se68, i32 0
  %B75 = udiv i64 %L5, %E33
  %Se76 = sext <2 x i1> %I58 to <2 x i32>
  %Sl77 = select i1 true, double %FC, double 0x2F5730769455CAF4
  %Cmp78 = icmp sgt <2 x i8> %Tr60, zeroinitializer
  %L79 = load i8, i8* %0, align 1
  store i8 %L79, i8* %0, align 1
  %E80 = extractelement <4 x i64> zeroinitializer, i32 3
  %Shuff81 = shufflevector <2 x i64> %Shuff20, <2 x i64> %I14, <2 x i32> <i32 2, i32 0>
  %I82 = insertelement <2 x i16> %I8, i16 0, i32 0
  %B83 = ashr i64 %Sl69, %E64
  %Tr84 = trunc i16 %E48 to i1
  br label %CF

CF:                                               ; preds = %CF, %CF95
  %Sl85 = select <2 x i1> %Cmp10, <2 x i1> %I58, <2 x i1> %Cmp70
  %Cmp86 = icmp slt <2 x i64> %Shuff49, %Shuff
  %L87 = load i8, i8* %0, align 1
  store i8 %Sl61, i8* %Sl45, align 1
  %E88 = extractelement <4 x i64> %Shuff42, i32 2
  %Shuff89 = shufflevector <16 x i8> %Shuff34, <16 x i8> %Shuff34, <16 x i32> <i32 29, i32 undef, i32 1, i32 3, i32 5, i32 7, i32 9, i32 undef, i32 13, i32 15, i32 17, i32 19, i32 21, i32 23, i32 undef, i32 27>
  %I90 = insertelement <2 x i64> %Shuff57, i64 106597, i32 1
  %B91 = fdiv float %B44, %B44
  %Sl92 = select i1 true, i16 0, i16 %E12
  %Cmp93 = icmp sgt i1 %Cmp17, %Cmp17
  br i1 %Cmp93, label %CF, label %CF101

CF101:                                            ; preds = %CF
  store i8 %L, i8* %Sl45, align 1
  store i8 %L25, i8* %0, align 1
  store i8 %L87, i8* %Sl45, align 1
  store i8 %L55, i8* %Sl45, align 1
  store i8 %L55, i8* %0, align 1
  ret void
}
