$g = comdat any
$h = comdat any

define void @f() align 2 {
0:
	ret void
}

define void @g() align 2 comdat {
; <label>:0
	ret void
}

define void @h() comdat align 2 {
; <label>:0
	ret void
}
