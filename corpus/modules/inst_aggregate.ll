define void @f() {
0:
	%1 = extractvalue { i8, { i32, i64 } } { i8 1, { i32, i64 } { i32 2, i64 3 } }, 1, 1
	%2 = insertvalue { i8, { i32, i64 } } { i8 1, { i32, i64 } { i32 2, i64 3 } }, i64 4, 1, 1
	ret void
}
