define i32 @g() {
0:
	ret i32 42
}

define void @h(i32 %x) {
0:
	ret void
}

define void @f() {
0:
	%1 = icmp eq i32 1, 2
	br i1 %1, label %foo, label %baz

foo:
	%2 = fcmp oeq double 3.0, 4.0
	br i1 %2, label %bar, label %baz

bar:
	br label %baz

baz:
	%3 = phi i32 [ 10, %foo ], [ 20, %bar ], [ 30, %baz ]
	%4 = select i1 true, i32 11, i32 22
	%5 = call i32 @g()
	call void @h(i32 30)
	%6 = va_arg i8* null, i32
	%7 = landingpad { i8*, i32 }
		catch i8** null
	ret void

handler0:
	%8 = catchpad within %cs [i8** null]
	ret void

handler1:
	%9 = cleanuppad within %cs [i8** null]
	ret void

dispatch:
	%cs = catchswitch within none [label %handler0, label %handler1] unwind to caller
}
