@g = global i32 0, !dbg !3

!llvm.dbg.cu = !{!7}
!named = !{!0, !2, !5}
!llvm.module.flags = !{!10}

!0 = !DICompositeType(tag: DW_TAG_array_type, baseType: !1, size: 96, elements: !{!DISubrange(count: 3)})
!1 = !DIBasicType(name: "int", size: 32, encoding: DW_ATE_signed)
!2 = !DICompositeType(tag: DW_TAG_enumeration_type, name: "E", baseType: !1, size: 32, elements: !{!DIEnumerator(name: "A", value: 0), !DIEnumerator(name: "B", value: 1)})
!3 = !DIGlobalVariableExpression(var: !4, expr: !DIExpression(DW_OP_deref))
!4 = distinct !DIGlobalVariable(name: "g", scope: !7, file: !8, line: 1, type: !1, isLocal: false, isDefinition: true)
!5 = !{!DILocation(line: 1, column: 2, scope: !6), !DISubrange(lowerBound: 1, upperBound: 7), !DIFile(filename: "x.c", directory: "/tmp")}
!6 = distinct !DISubprogram(name: "f", scope: !8, file: !8, line: 1, type: !9, spFlags: DISPFlagDefinition, unit: !7)
!7 = distinct !DICompileUnit(language: DW_LANG_C99, file: !8, producer: "p", isOptimized: false, runtimeVersion: 0, emissionKind: FullDebug, globals: !{!3})
!8 = !DIFile(filename: "a.c", directory: "/d")
!9 = !DISubroutineType(types: !{null, !DIBasicType(name: "char", size: 8, encoding: DW_ATE_signed_char)})
!10 = !{i32 2, !"Debug Info Version", i32 3}
