%struct.T = type { i8, i32 }

define void @f(%struct.T* byval(%struct.T) align 4 %0) {
1:
	ret void
}

define void @g(%struct.T* byval align 4 %0) {
1:
	ret void
}
