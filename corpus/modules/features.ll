; a module exercising many optional syntactic elements, for the token-preservation oracle of C01
source_filename = "features.c"
target datalayout = "e-m:e-i64:64-f80:128-n8:16:32:64-S128"
target triple = "x86_64-unknown-linux-gnu"

module asm "nop"

%pair = type { i32, i8* }
%packed = type <{ i8, i32 }>
%opq = type opaque

$cd = comdat any
$cd2 = comdat largest

@ga = addrspace(3) global i32 0, align 4
@gint = internal unnamed_addr constant [3 x i8] c"ab\00", section ".rodata.x", align 1
@gtls = thread_local(initialexec) global i32 1
@gext = external dso_local global %pair
@gweak = weak_odr hidden local_unnamed_addr global double 1.500000e+00, comdat($cd)
@gdll = dllexport global i32 7, comdat($cd2)
@gvec = global <2 x i32> <i32 1, i32 2>
@gstruct = global %pair { i32 1, i8* null }
@gpk = global %packed <{ i8 1, i32 2 }>
@gexpr = global i8* getelementptr inbounds ([3 x i8], [3 x i8]* @gint, i64 0, i64 1)
@al = weak alias i32, i32 addrspace(3)* @ga

declare void @llvm.dbg.value(metadata, metadata, metadata)
declare i32 @pers(...)
declare void @vf()
declare i32 @printf(i8* nocapture readonly, ...)

define void @fa() addrspace(1) {
	ret void
}

define internal fastcc nonnull i8* @attrs(i8* noalias nocapture readonly %p, i32 signext %n, float %f) unnamed_addr #0 section ".text.hot" align 16 gc "shadow-stack" personality i32 (...)* @pers {
entry:
	%a = add nuw nsw i32 %n, 1
	%s = sub nsw i32 %a, %n
	%d = udiv exact i32 %a, 2
	%sh = lshr exact i32 %d, 1
	%fa = fadd fast float %f, 1.000000e+00
	%fm = fmul nnan ninf float %fa, %f
	%g = getelementptr inbounds i8, i8* %p, i32 %a
	%v = load volatile i8, i8* %g, align 1
	%at = load atomic i8, i8* %g seq_cst, align 1
	store atomic i8 %v, i8* %g release, align 1
	store volatile i8 %at, i8* %g
	fence syncscope("singlethread") acquire
	%c = icmp ult i32 %a, %n
	%fc = fcmp ogt float %fm, %f
	%sel = select i1 %c, i32 %a, i32 %s
	%t = tail call i32 (i8*, ...) @printf(i8* %p, i32 %sel)
	%m = musttail call fastcc i8* @attrs(i8* %p, i32 %n, float %f)
	ret i8* %m
}

define void @user(void () addrspace(1)** %p, i32 addrspace(3)** %q) #1 {
	store void () addrspace(1)* @fa, void () addrspace(1)** %p
	store i32 addrspace(3)* @ga, i32 addrspace(3)** %q
	call addrspace(1) void @fa()
	call void asm sideeffect "nop", "~{memory}"()
	ret void
}

define <vscale x 4 x i32> @sc(<vscale x 4 x i32> %a, <vscale x 4 x i32> %b) {
	%r = add <vscale x 4 x i32> %a, %b
	ret <vscale x 4 x i32> %r
}

attributes #0 = { nounwind "frame-pointer"="all" }
attributes #1 = { noinline optnone uwtable }

!llvm.module.flags = !{!0}
!0 = !{i32 2, !"Debug Info Version", i32 3}
