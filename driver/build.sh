#!/bin/sh
# builds the OCaml model driver: extraction (coqc) + ocamlfind ocamlopt
set -e
cd "$(dirname "$0")"
# the compiled files Extract.v imports must be up to date and mutually consistent
DEPS=$(grep -o 'LLIR Require.*' Extract.v | sed 's/LLIR Require Import//; s/LLIR Require//; s/\.$//' | tr ' ' '\n' | grep . | sed 's|\.|/|g; s|^|theories/|; s|$|.vo|' | tr '\n' ' ')
(cd ../coq && timeout 3000 make -j16 $DEPS > ../.work/driver-make.log 2>&1) || { tail -20 ../.work/driver-make.log; exit 1; }
coqc -Q ../coq/theories LLIR Extract.v > extract.log 2>&1 || { cat extract.log; exit 1; }
ocamlfind ocamlopt -w -a -O3 model.mli model.ml main.ml -o ../bin/driver 2>/dev/null || ocamlfind ocamlopt -w -a model.mli model.ml main.ml -o ../bin/driver
