#!/bin/sh
# builds the OCaml model driver: extraction (coqc) + ocamlfind ocamlopt
set -e
cd "$(dirname "$0")"
coqc -Q ../coq/theories LLIR Extract.v > extract.log 2>&1 || { cat extract.log; exit 1; }
ocamlfind ocamlopt -w -a -O3 model.mli model.ml main.ml -o ../bin/driver 2>/dev/null || ocamlfind ocamlopt -w -a model.mli model.ml main.ml -o ../bin/driver
