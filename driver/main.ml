(* Line-oriented driver: evaluates the extracted Coq models on the inputs of the harness's
   correspondence cases and prints, for every C line, the model's outputs. *)
type ostring = string
open Model

(* ---- conversions between OCaml values and the extracted inductive types ---- *)
let rec pos_of_int i = if i = 1 then XH else if i land 1 = 0 then XO (pos_of_int (i lsr 1)) else XI (pos_of_int (i lsr 1))
let n_of_int i = if i = 0 then N0 else Npos (pos_of_int i)
let rec int_of_pos = function XH -> 1 | XO p -> 2 * int_of_pos p | XI p -> 2 * int_of_pos p + 1
let int_of_n = function N0 -> 0 | Npos p -> int_of_pos p

let byte_tbl = Array.init 256 (fun i -> byte_of_N_total (n_of_int i))
let bytes_of_string (s : ostring) = List.init (String.length s) (fun i -> byte_tbl.(Char.code s.[i]))
let string_of_bytes l =
  let b = Buffer.create 16 in
  List.iter (fun x -> Buffer.add_char b (Char.chr (int_of_n (to_N x)))) l; Buffer.contents b

let hexval c = match c with
  | '0'..'9' -> Char.code c - 48 | 'a'..'f' -> Char.code c - 87 | 'A'..'F' -> Char.code c - 55
  | _ -> failwith "hex"
let unhx (s : ostring) : ostring =   (* "x6162" -> "ab" *)
  let n = (String.length s - 1) / 2 in
  String.init n (fun i -> Char.chr (hexval s.[1 + 2*i] * 16 + hexval s.[2 + 2*i]))
let hx (s : ostring) : ostring =
  let b = Buffer.create (1 + 2 * String.length s) in
  Buffer.add_char b 'x';
  String.iter (fun c -> Buffer.add_string b (Printf.sprintf "%02x" (Char.code c))) s; Buffer.contents b
let bytes_of_hx s = bytes_of_string (unhx s)
let hx_of_bytes l = hx (string_of_bytes l)
let list_of_hxs s = if s = "-" then [] else List.map bytes_of_hx (String.split_on_char ',' s)
let hxs_of_list l = if l = [] then "-" else String.concat "," (List.map hx_of_bytes l)

(* arbitrary-size decimal <-> Z without a bignum library: schoolbook on positive *)
let rec pos_succ = function XH -> XO XH | XO p -> XI p | XI p -> XO (pos_succ p)
let rec pos_add a b = match a, b with
  | XH, q -> pos_succ q | p, XH -> pos_succ p
  | XO p, XO q -> XO (pos_add p q) | XO p, XI q -> XI (pos_add p q) | XI p, XO q -> XI (pos_add p q)
  | XI p, XI q -> XO (pos_succ (pos_add p q))
let n_add a b = match a, b with N0, x | x, N0 -> x | Npos p, Npos q -> Npos (pos_add p q)
let n_double = function N0 -> N0 | Npos p -> Npos (XO p)
let n_mul10 n = let d = n_double n in n_add (n_double (n_double d)) d
let n_of_dec (s : ostring) : n =
  let r = ref N0 in
  String.iter (fun c -> r := n_add (n_mul10 !r) (n_of_int (Char.code c - 48))) s; !r
let z_of_dec (s : ostring) : z =
  if s = "" then failwith "z_of_dec" else
  if s.[0] = '-' then (match n_of_dec (String.sub s 1 (String.length s - 1)) with N0 -> Z0 | Npos p -> Zneg p)
  else (match n_of_dec s with N0 -> Z0 | Npos p -> Zpos p)
(* Z -> decimal: repeated division by 10 on a little-endian bit list *)
let rec bits_of_pos = function XH -> [true] | XO p -> false :: bits_of_pos p | XI p -> true :: bits_of_pos p
let dec_of_pos (p : positive) : ostring =
  (* big-endian bits, repeated divmod 10 *)
  let bits = ref (List.rev (bits_of_pos p)) in
  let digits = Buffer.create 16 in
  let is_zero l = List.for_all (fun b -> not b) l in
  while not (is_zero !bits) do
    let rem = ref 0 in
    let q = List.map (fun b -> let v = !rem * 2 + (if b then 1 else 0) in rem := v mod 10; v >= 10) !bits in
    Buffer.add_char digits (Char.chr (48 + !rem));
    bits := q
  done;
  let s = Buffer.contents digits in
  let n = String.length s in String.init n (fun i -> s.[n - 1 - i])
let dec_of_n = function N0 -> "0" | Npos p -> dec_of_pos p
let dec_of_z = function Z0 -> "0" | Zpos p -> dec_of_pos p | Zneg p -> "-" ^ dec_of_pos p
let rec nat_of_int i = if i = 0 then O else S (nat_of_int (i - 1))
let rec int_of_nat = function O -> 0 | S n -> 1 + int_of_nat n

(* Coq strings (ascii = 8 booleans) *)
let coq_ascii (c : char) : ascii =
  let n = Char.code c in
  let b i = (n lsr i) land 1 = 1 in
  Ascii (b 0, b 1, b 2, b 3, b 4, b 5, b 6, b 7)
let coq_string (s : ostring) : Model.string =
  let r = ref EmptyString in
  for i = String.length s - 1 downto 0 do r := String (coq_ascii s.[i], !r) done; !r

let b2s b = if b then "1" else "0"
let ints_of s = if s = "" || s = "-" then [] else List.map z_of_dec (String.split_on_char ',' s)
let of_ints l = String.concat "," (List.map dec_of_z l)

(* (code, payload) outcomes: 0 Ok, 1 Err, 2 Panic *)
let oc3 show (code, v) = match int_of_nat code with 0 -> "Ok " ^ show v | 1 -> "Err" | _ -> "Panic"

let c11_show ((code, s), k) = match int_of_nat code with 0 -> "Name " ^ hx_of_bytes s | 1 -> "ID " ^ dec_of_z k | _ -> "None"

(* ---- type trees (encoding of harness/types.go) ---- *)
let parse_ty (s : ostring) : ty =
  let pos = ref 0 in
  let next () = let c = s.[!pos] in incr pos; c in
  let num () =
    let st = !pos in
    while s.[!pos] <> ';' do incr pos done;
    let r = Stdlib.String.sub s st (!pos - st) in incr pos; r in
  let flag () = next () = '1' in
  let rec go () : ty =
    match next () with
    | 'v' -> TVoid | 'm' -> TMMX | 'l' -> TLabel | 'k' -> TToken | 'M' -> TMetadata
    | 'i' -> TInt (n_of_dec (num ()))
    | 'f' -> TFloat (match next () with '0' -> FHalf | '1' -> FFloat | '2' -> FDouble | '3' -> FX86_FP80 | '4' -> FFP128 | _ -> FPPC_FP128)
    | 'p' -> let a = n_of_dec (num ()) in let e = go () in TPtr (e, a)
    | 'V' -> let sc = flag () in let l = n_of_dec (num ()) in let e = go () in TVec (sc, l, e)
    | 'A' -> let l = n_of_dec (num ()) in let e = go () in TArr (l, e)
    | 'S' -> let pk = flag () in let n = int_of_string (num ()) in
             let fs = List.init n (fun _ -> ()) |> List.map (fun () -> go ()) in TStruct (pk, fs)
    | 'N' -> let h = num () in TNamed (bytes_of_hx ("x" ^ h))
    | 'F' -> let va = flag () in let n = int_of_string (num ()) in
             let r = go () in
             let ps = List.init n (fun _ -> ()) |> List.map (fun () -> go ()) in TFunc (r, ps, va)
    | c -> failwith ("bad type encoding at " ^ Stdlib.String.make 1 c)
  in go ()

(* ---- C07: index forms ---- *)
let parse_shape (s : ostring) : ishape =
  if s = "S" then Scalar else Vector (s.[1] = '1', n_of_dec (Stdlib.String.sub s 2 (Stdlib.String.length s - 2)))
let parse_form (s : ostring) : iform =
  match Stdlib.String.index_opt s ':' with
  | None -> failwith "form"
  | Some i ->
    let k = Stdlib.String.sub s 0 i and a = Stdlib.String.sub s (i+1) (Stdlib.String.length s - i - 1) in
    (match k with
     | "int" -> IConst (CInt (z_of_dec a))
     | "bool" -> IConst (CBoolLit (a = "1"))
     | "zero" -> IConst (CZero (parse_shape a))
     | "vec" -> IConst (CVec (List.map (fun e -> EInt (z_of_dec e)) (Stdlib.String.split_on_char '|' a)))
     | "undef" -> IConst (CUndef (parse_shape a))
     | "poison" -> IConst (CPoison (parse_shape a))
     | "ptrtoint" -> IConst (CPtrToInt (parse_shape a))
     | "expr" -> IConst (CExpr (parse_shape a))
     | "value" -> IValue (parse_shape a)
     | _ -> failwith "form kind")
let parse_forms (s : ostring) = if s = "" then [] else List.map parse_form (Stdlib.String.split_on_char ',' s)
let parse_tys (s : ostring) : ty list =     (* concatenated encodings *)
  let res = ref [] and rest = ref s in
  while !rest <> "" do
    (* parse one type and find how much was consumed by re-encoding length: use a position-tracking copy *)
    let pos = ref 0 in
    let str = !rest in
    let next () = let c = str.[!pos] in incr pos; c in
    let num () = let st = !pos in while str.[!pos] <> ';' do incr pos done; let r = Stdlib.String.sub str st (!pos - st) in incr pos; r in
    let flag () = next () = '1' in
    let rec go () : ty =
      match next () with
      | 'v' -> TVoid | 'm' -> TMMX | 'l' -> TLabel | 'k' -> TToken | 'M' -> TMetadata
      | 'i' -> TInt (n_of_dec (num ()))
      | 'f' -> TFloat (match next () with '0' -> FHalf | '1' -> FFloat | '2' -> FDouble | '3' -> FX86_FP80 | '4' -> FFP128 | _ -> FPPC_FP128)
      | 'p' -> let a = n_of_dec (num ()) in let e = go () in TPtr (e, a)
      | 'V' -> let sc = flag () in let l = n_of_dec (num ()) in let e = go () in TVec (sc, l, e)
      | 'A' -> let l = n_of_dec (num ()) in let e = go () in TArr (l, e)
      | 'S' -> let pk = flag () in let n = int_of_string (num ()) in
               let fs = List.init n (fun _ -> ()) |> List.map (fun () -> go ()) in TStruct (pk, fs)
      | 'N' -> let h = num () in TNamed (bytes_of_hx ("x" ^ h))
      | 'F' -> let va = flag () in let n = int_of_string (num ()) in
               let r = go () in let ps = List.init n (fun _ -> ()) |> List.map (fun () -> go ()) in TFunc (r, ps, va)
      | c -> failwith "bad type encoding" in
    let t = go () in
    res := t :: !res;
    rest := Stdlib.String.sub str !pos (Stdlib.String.length str - !pos)
  done; List.rev !res
let parse_bodies (s : ostring) =
  if s = "" then [] else
  List.map (fun e -> match Stdlib.String.split_on_char '=' e with
    | [n; fs] -> (bytes_of_hx ("x" ^ n), parse_tys fs) | _ -> failwith "bodies") (Stdlib.String.split_on_char ',' s)
let show_ty_opt = function Some t -> "Ok " ^ hx_of_bytes (ty_string t) | None -> "Panic"

(* ---- C06: rule shapes ---- *)
let parse_shape06 (s : ostring) : shape =
  match Stdlib.String.split_on_char ' ' s with
  | ["SameAsFirst"; t] -> SameAsFirst (parse_ty t)
  | ["Convert"; f; t] -> Convert (parse_ty f, parse_ty t)
  | ["Explicit"; t] -> Explicit (parse_ty t)
  | ["Alloca"; t; a] -> Alloca (parse_ty t, n_of_dec a)
  | ["CmpXchg"; t] -> CmpXchg (parse_ty t)
  | ["AtomicRMW"; t] -> AtomicRMW (parse_ty t)
  | ["ICmp"; t] -> ICmp (parse_ty t)
  | ["FCmp"; t] -> FCmp (parse_ty t)
  | "Phi" :: d :: inc -> Phi (parse_ty d, List.map parse_ty inc)
  | ["CallLike"; w; c] -> CallLike (parse_ty w, parse_ty c)
  | ["ExtractElement"; t] -> ExtractElement (parse_ty t)
  | ["InsertElement"; t] -> InsertElement (parse_ty t)
  | ["ShuffleVector"; x; m] -> ShuffleVector (parse_ty x, parse_ty m)
  | ["ExtractValue"; t; idx] -> ExtractValue (parse_ty t, List.map n_of_dec (Stdlib.String.split_on_char ',' idx))
  | ["TokenResult"] -> TokenResult
  | _ -> failwith ("shape " ^ s)

(* ---- C04/C05: resolution skeleton ---- *)
let sk_ident (tok : ostring) =
  let body = Stdlib.String.sub tok 1 (Stdlib.String.length tok - 1) in
  let digits = body <> "" && (let ok = ref true in Stdlib.String.iter (fun c -> if c < '0' || c > '9' then ok := false) body; !ok) in
  if digits then sk_num (z_of_dec body) else sk_name (bytes_of_string body)
let sk_ns s = Model.sk_ns (nat_of_int (match s with "type" -> 0 | "comdat" -> 1 | "global" -> 2 | "attr" -> 3 | _ -> 4))
let sk_split c s = if s = "" then [] else Stdlib.String.split_on_char c s
let sk_top (t : ostring) : top =
  match Stdlib.String.split_on_char '|' t with
  | [ns; id; kind; uses; blocks; baddrs] ->
    let dummy = sk_num Z0 in
    let k = if kind = "opaque" then sk_kind (nat_of_int 1) dummy else if Stdlib.String.length kind > 6 && Stdlib.String.sub kind 0 6 = "alias:" then sk_kind (nat_of_int 2) (sk_ident (Stdlib.String.sub kind 6 (Stdlib.String.length kind - 6))) else sk_kind (nat_of_int 0) dummy in
    let us = List.map (fun u -> match Stdlib.String.index_opt u '=' with
      | Some i -> mk_use (sk_ns (Stdlib.String.sub u 0 i)) (sk_ident (Stdlib.String.sub u (i+1) (Stdlib.String.length u - i - 1))) | None -> failwith "use") (sk_split ',' uses) in
    let bs = List.map sk_ident (sk_split ',' blocks) in
    let bas = List.map (fun u -> match Stdlib.String.index_opt u '=' with
      | Some i -> (sk_ident (Stdlib.String.sub u 0 i), sk_ident (Stdlib.String.sub u (i+1) (Stdlib.String.length u - i - 1))) | None -> failwith "baddr") (sk_split ',' baddrs) in
    mk_top (sk_ns ns) (Some (sk_ident id)) k us bs bas
  | _ -> failwith "top"
let sk_outcome n = match int_of_nat n with 0 -> "Ok" | 1 -> "Err" | _ -> "Panic"

(* ---- C04: placeholders (Proofs/PlaceholderProofs.v) ----
   module  = part ; part ; ... ; L|sites        (the last part: late sites, metadata then use-list orders)
   part    = v|ID|sites  |  d|ID  |  f|ID|label:sites/label:sites/...
   sites   = F.B,F.B,...    ID, F, B, label = x<hex of the name> or <decimal number> *)
let ph_ident (tok : ostring) =
  if tok <> "" && tok.[0] = 'x' then sk_name (bytes_of_hx tok) else sk_num (z_of_dec tok)
let ph_sites (s : ostring) =
  List.map (fun t -> match Stdlib.String.split_on_char '.' t with
    | [f; b] -> ph_site (ph_ident f) (ph_ident b) | _ -> failwith "site") (sk_split ',' s)
let ph_module (s : ostring) =
  let tops = ref [] and late = ref [] in
  List.iter (fun part -> match Stdlib.String.split_on_char '|' part with
    | ["v"; id; sites] -> tops := ph_var (ph_ident id) (ph_sites sites) :: !tops
    | ["d"; id] -> tops := ph_decl (ph_ident id) :: !tops
    | ["f"; id; blocks] ->
      let bl = List.map (fun b -> match Stdlib.String.split_on_char ':' b with
        | [l; sites] -> (ph_ident l, ph_sites sites) | _ -> failwith "block") (sk_split '/' blocks) in
      tops := ph_def (ph_ident id) bl :: !tops
    | ["L"; sites] -> late := !late @ ph_sites sites
    | _ -> failwith "part") (sk_split ';' s);
  (List.rev !tops, !late)
let ph_const = function Some (f, b) -> Printf.sprintf "%d.%d" (int_of_nat f) (int_of_nat b) | None -> "-"
let ph_consts l = Stdlib.String.concat "," (List.map ph_const l)
let ph_entity = function
  | None -> "?"
  | Some ((false, _), [(_, init)]) -> "v=" ^ ph_consts init
  | Some ((_, p), bl) ->
    "f" ^ b2s p ^ "=" ^ Stdlib.String.concat "/" (List.map (fun (bp, cs) -> b2s bp ^ ":" ^ ph_consts cs) bl)
let ph_show (code, (tops, late)) = match int_of_nat code with
  | 0 -> "Ok " ^ Stdlib.String.concat ";" (List.map ph_entity tops @ ["L=" ^ ph_consts late])
  | 1 -> "Err" | _ -> "Panic"

(* ---- C10 ---- *)
let show_fval (((code, s), m), e) = match int_of_nat code with
  | 0 -> "Z " ^ b2s s | 1 -> "F " ^ b2s s ^ " " ^ dec_of_z m ^ " " ^ dec_of_z e | 2 -> "I " ^ b2s s | 3 -> "N " ^ b2s s | _ -> "Panic"
let pad_hex n z = let h = string_of_bytes (hex_of_Z z) in
  if Stdlib.String.length h >= n then h else Stdlib.String.make (n - Stdlib.String.length h) '0' ^ h

(* ---- dispatch: kind -> inputs -> outputs ---- *)
let eval (kind : ostring) (ins : ostring list) : ostring list =
  match kind, ins with
  | "less", [a; b] -> [b2s (less (bytes_of_hx a) (bytes_of_hx b))]
  | "sort", [l] -> [hxs_of_list (sort_strings (list_of_hxs l))]
  | "idsort", [l] -> [of_ints (sort_ids (ints_of l))]
  | "writeto", [chunks; ks] ->
    let cl = list_of_hxs chunks in
    let one k =
      let (((n, failed), delivered), calls) = writeto_fail_after (nat_of_int (int_of_string k)) cl in
      Printf.sprintf "%d:%s:%s:%d" (int_of_nat n) (b2s failed) (Digest.to_hex (Digest.string (string_of_bytes delivered))) (int_of_nat calls) in
    [String.concat "," (List.map one (String.split_on_char ',' ks))]
  | "enum_str", [ty; v] -> [hx_of_bytes (enum_str (coq_string ty) (z_of_dec v))]
  | "enum_from", [ty; s] -> [match enum_from (coq_string ty) (bytes_of_hx s) with Some v -> dec_of_z v | None -> "Panic"]
  | "cc_read", [n] -> [dec_of_z (cc_read (z_of_dec n))]
  | "flagset_value", [ty; names] ->
    let ns = List.map bytes_of_string (String.split_on_char ',' names) in
    [match flagset_value (coq_string ty) ns with Some v -> dec_of_z v | None -> "Panic"]
  | "parse_int", [w; s] ->
    [oc3 dec_of_z (c09_parse (n_of_dec w) (bytes_of_hx s))]
  | "ident", [w; x; choice] ->
    [oc3 hx_of_bytes (c09_ident (choice = "1") (n_of_dec w) (z_of_dec x))]
  | "global_name", [n] -> ["Ok " ^ hx_of_bytes (global_name (bytes_of_hx n))]
  | "local_name", [n] -> ["Ok " ^ hx_of_bytes (local_name (bytes_of_hx n))]
  | "label_name", [n] -> ["Ok " ^ hx_of_bytes (label_name (bytes_of_hx n))]
  | "type_name", [n] -> ["Ok " ^ hx_of_bytes (type_name (bytes_of_hx n))]
  | "comdat_name", [n] -> ["Ok " ^ hx_of_bytes (comdat_name (bytes_of_hx n))]
  | "metadata_name", [n] -> [match metadata_name (bytes_of_hx n) with Some t -> "Ok " ^ hx_of_bytes t | None -> "Panic"]
  | "escape_ident", [n] -> ["Ok " ^ hx_of_bytes (escape_ident (bytes_of_hx n))]
  | "escape_string", [n] -> ["Ok " ^ hx_of_bytes (escape_string (bytes_of_hx n))]
  | "quote", [n] -> ["Ok " ^ hx_of_bytes (quote (bytes_of_hx n))]
  | "unescape", [n] -> ["Ok " ^ hx_of_bytes (unescape (bytes_of_hx n))]
  | "global_id", [n] -> [hx_of_bytes (global_id (n_of_dec n))]
  | "local_id", [n] -> [hx_of_bytes (local_id (n_of_dec n))]
  | "label_id", [n] -> [hx_of_bytes (label_id (n_of_dec n))]
  | ("decode_global" | "decode_func"), [n] -> [c11_show (c11_dec_global (bytes_of_hx n))]
  | ("decode_param" | "decode_result"), [n] -> [c11_show (c11_dec_local (bytes_of_hx n))]
  | "decode_block", [n] -> [c11_show (c11_dec_label (bytes_of_hx n))]
  | "decode_type", [n] -> [match c11_dec_type (bytes_of_hx n) with Some s -> "Name " ^ hx_of_bytes s | None -> "None"]
  | "decode_comdat", [n] -> [match c11_dec_comdat (bytes_of_hx n) with Some s -> "Name " ^ hx_of_bytes s | None -> "None"]
  | ("decode_metadata" | "decode_attachment"), [n] -> [match c11_dec_metadata (bytes_of_hx n) with Some s -> "Name " ^ hx_of_bytes s | None -> "None"]
  | "ty_string", [t] -> [hx_of_bytes (ty_string (parse_ty t))]
  | "equal", [t; u] -> [b2s (equal_go (parse_ty t) (parse_ty u))]
  | "gep_result", [e; src; idxs; bodies] ->
    let ix = if idxs = "" then [] else List.map (fun t -> match Stdlib.String.split_on_char ':' t with
      | [h; v; l] -> mk_index (h = "1") (z_of_dec v) (n_of_dec l) | _ -> failwith "idx") (Stdlib.String.split_on_char ',' idxs) in
    [show_ty_opt (gep_result (parse_bodies bodies) (parse_ty e) (parse_ty src) ix)]
  | "gep_inst", [e; src; fs; bodies] -> [show_ty_opt (gep_inst (parse_bodies bodies) (parse_ty e) (parse_ty src) (parse_forms fs))]
  | "gep_expr", [e; src; fs; bodies] -> [show_ty_opt (gep_expr (parse_bodies bodies) (parse_ty e) (parse_ty src) (parse_forms fs))]
  | "gep_parse", [e; src; fs; bodies] -> [show_ty_opt (gep_parse (parse_bodies bodies) (parse_ty e) (parse_ty src) (parse_forms fs))]
  | "ir_type", [sh; bodies] -> [show_ty_opt (c06_ir (parse_bodies bodies) (parse_shape06 sh))]
  | "asm_type", [sh; bodies] -> [show_ty_opt (c06_asm (parse_bodies bodies) (parse_shape06 sh))]
  | "assign_ids", [items] ->
    let parsed = List.map (fun t -> match Stdlib.String.split_on_char ':' t with
      | [n; id; v; obj] -> (mk_item (n = "1") (z_of_dec id) (v = "1"), n = "1", obj = "1") | _ -> failwith "item")
      (Stdlib.String.split_on_char ',' items) in
    [match c08_assign (List.map (fun (i, _, _) -> i) parsed) with
     | None -> "Err"
     | Some r -> "Ok " ^ Stdlib.String.concat "," (List.map2 (fun it (_, named, obj) -> if named || not obj then "-" else dec_of_z (it_id it)) r parsed)]
  | "print_after_parse", [ents] ->
    let l = List.map (fun t -> match Stdlib.String.split_on_char ':' t with
      | [k; n] -> mk_gent (nat_of_int (match k with "G" -> 0 | "A" -> 1 | "I" -> 2 | _ -> 3)) (n = "1") | _ -> failwith "gent")
      (Stdlib.String.split_on_char ',' ents) in
    [if c08_print_after_parse l then "Ok" else "Err"]
  | "md_assign", [ids] -> [match c17_assign (ints_of ids) with Some r -> "Ok " ^ of_ints r | None -> "Err"]
  | "skeleton", [tops] -> [sk_outcome (sk_translate (List.map sk_top (sk_split ';' tops)))]
  | "placeholders", [m] ->
    let (tops, late) = ph_module m in
    [ph_show (ph_run false tops late); ph_show (ph_run true tops late)]
  | "history", [init; ops] ->
    let item_of t = match Stdlib.String.split_on_char ':' t with
      | [n; id; v; obj] -> (mk_item (n = "1") (z_of_dec id) (v = "1"), obj = "1") | _ -> failwith "item" in
    let init_items = if init = "" then [] else List.map item_of (Stdlib.String.split_on_char ',' init) in
    (* the obj flags travel beside the model's list, edited the same way *)
    let objs = ref (List.map snd init_items) in
    let rec ins n x l = match n, l with 0, _ -> x :: l | _, y :: r -> y :: ins (n-1) x r | _, [] -> [x] in
    let rec rem n l = match n, l with _, [] -> [] | 0, _ :: r -> r | _, y :: r -> y :: rem (n-1) r in
    let op_of t = match Stdlib.String.split_on_char ':' t with
      | ["I"; p; n; v; obj] -> objs := ins (int_of_string p) (obj = "1") !objs;
                               h_insert (nat_of_int (int_of_string p)) (mk_item (n = "1") Z0 (v = "1"))
      | ["R"; p] -> objs := rem (int_of_string p) !objs; h_remove (nat_of_int (int_of_string p))
      | ["N"; p; n] -> h_rename (nat_of_int (int_of_string p)) (n = "1")
      | ["P"] -> h_print | ["Q"] -> h_query | _ -> failwith "op" in
    let h = if ops = "" then [] else List.map op_of (Stdlib.String.split_on_char ',' ops) in
    [match c14_final h (List.map fst init_items) with
     | None -> "Panic"
     | Some r -> "Ok " ^ Stdlib.String.concat "," (List.map2 (fun it obj -> if (it_named it && obj) || not obj then "-" else dec_of_z (it_id it)) r !objs)]
  | "succs_hist", [targets; ops] ->
    let op_of t = match Stdlib.String.split_on_char ':' t with
      | ["S"] -> (false, (nat_of_int 0, Z0))
      | ["W"; i; b] -> (true, (nat_of_int (int_of_string i), z_of_dec b))
      | _ -> failwith "succs op" in
    let h = if ops = "" then [] else List.map op_of (Stdlib.String.split_on_char ',' ops) in
    [Stdlib.String.concat ";" (List.map of_ints (c15_succs (ints_of targets) h))]
  | "fdec", [k; bits] ->
    let b = z_of_dec bits in
    [match k with
     | "H" -> show_fval (c10_dec_ieee (nat_of_int 0) b)
     | "F" | "D" -> show_fval (c10_dec_ieee (nat_of_int 1) b)
     | "L" -> show_fval (c10_dec_ieee (nat_of_int 2) b)
     | "K" -> show_fval (c10_dec80 b)
     | _ -> show_fval (c10_dec_ppc b)]
  | "dec_read", [neg; mant; e10] ->
    (* the 64-bit pattern of the double a decimal literal denotes: sign bit, then the model's 63 bits *)
    [pad_hex 16 (c10_dec_read (neg = "1") (z_of_dec mant) (z_of_dec e10))]
  | "frt", [k; bits] ->
    let b = z_of_dec bits in
    [match k with
     | "L" -> (* the low 64 bits are written first (LLVM's layout of 0xL) *)
       let h = pad_hex 32 (c10_rt_ieee (nat_of_int 2) b) in hx ("0xL" ^ Stdlib.String.sub h 16 16 ^ Stdlib.String.sub h 0 16)
     | "K" -> (match c10_rt80 b with Some z -> hx ("0xK" ^ pad_hex 20 z) | None -> "inexact")
     | _ -> (let (code, z) = c10_rt_ppc b in match int_of_nat code with 0 -> "ParsePanic" | 1 -> "Panic" | _ -> hx ("0xM" ^ pad_hex 32 z))]
  | _ -> failwith ("unknown kind " ^ kind)

let () =
  let ic = open_in Sys.argv.(1) in
  let lineno = ref 0 in
  (try while true do
    let line = input_line ic in
    incr lineno;
    if String.length line > 2 && line.[0] = 'C' && line.[1] = '\t' then begin
      let fields = String.split_on_char '\t' line in
      match fields with
      | _ :: kind :: rest ->
        let rec split acc = function
          | "|" :: _ -> List.rev acc
          | x :: r -> split (x :: acc) r
          | [] -> List.rev acc in
        let ins = split [] rest in
        let outs = (try eval kind ins with e -> ["EXN:" ^ Printexc.to_string e]) in
        print_string (string_of_int !lineno); print_char '\t';
        print_endline (String.concat "\t" outs)
      | _ -> ()
    end
  done with End_of_file -> ())
