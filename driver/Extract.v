(* Extraction of the executable models to OCaml for the correspondence leg.
   ExtrOcamlBasic only: bool, option, unit, list, prod, sumbool, sumor map to OCaml's own types;
   N, Z, positive, nat, byte stay the extracted inductive types. *)
From Coq Require Import ExtrOcamlBasic.
From Coq Require Import Strings.Byte NArith ZArith List.
From Coq Require Import Strings.String.
From LLIR Require Import Lib.Bytes Model.Natsort Model.Assemble Model.Writer Gen.Enums Model.GoEval Proofs.EnumProofs Model.IntLit.

Definition byte_of_N_total (n : N) : byte := match Byte.of_N n with Some b => b | None => x00 end.
(* C19: run the chunks against a writer failing after k bytes: (size, failed?, delivered, calls) *)
Definition writeto_fail_after (k : nat) (chunks : list bytes) : nat * bool * bytes * nat :=
  let s := run nat (fail_after k) 0 chunks in
  (fw_size nat s, match fw_err nat s with Some _ => true | None => false end, fw_delivered nat s, fw_calls nat s).
(* C18: the regenerated keyword tables *)
Definition enum_str (ty : string) (v : Z) : bytes := enum_string ty v.
Definition enum_from (ty : string) (s : bytes) : option Z :=
  match enum_table ty with
  | Some t => match from_string t s with EnumProofs.Ok v => Some v | EnumProofs.Panic => None end
  | None => None
  end.
(* asm.irCallingConv on  cc N  (theorem C18_numeric_calling_convention_read over the regenerated body) *)
Definition cc_read (n : Z) : Z := if (n =? 0)%Z then 1%Z else n.
Definition flagset_value (ty : string) (names : list bytes) : option Z :=
  fold_left (fun acc s => match acc, enum_from ty s with Some a, Some v => Some (Z.lor a v) | _, _ => None end) names (Some 0%Z).
(* C09 *)
(* outcomes cross the extraction boundary as (code, payload): 0 Ok, 1 Err, 2 Panic -- so that the OCaml
   side does not depend on how extraction renames the constructors of the models' outcome types *)
Definition c09_parse (w : N) (s : bytes) : nat * Z :=
  match parse_int w s with IntLit.Ok v => (0, v) | IntLit.Err => (1, 0%Z) | IntLit.Panic => (2, 0%Z) end.
Definition c09_ident (hex : bool) (w : N) (x : Z) : nat * bytes :=
  match ident (fun _ => hex) w x with IntLit.Ok v => (0, v) | IntLit.Err => (1, nil) | IntLit.Panic => (2, nil) end.
Definition sort_ids (l : list Z) : list Z := isort Z.ltb l.

Extraction "model.ml" byte_of_N_total Byte.to_N
  Natsort.less Natsort.sort_strings sort_ids
  writeto_fail_after enum_str enum_from cc_read flagset_value c09_parse c09_ident.
