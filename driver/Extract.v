(* Extraction of the executable models to OCaml for the correspondence leg.
   ExtrOcamlBasic only: bool, option, unit, list, prod, sumbool, sumor map to OCaml's own types;
   N, Z, positive, nat, byte stay the extracted inductive types. *)
From Coq Require Import ExtrOcamlBasic.
From Coq Require Import Strings.Byte NArith ZArith List.
From Coq Require Import Strings.String.
From LLIR Require Model.DecRead.
Import ListNotations.
Local Open Scope list_scope.
From LLIR Require Import Lib.Bytes Lib.Radix Model.Natsort Model.Assemble Model.Writer Gen.Enums Model.EnumModel Model.IntLit Model.Enc Model.Types Model.TypeString Model.Gep Model.ResultType Model.Numbering Model.MetadataIDs Model.Skeleton Model.History Model.FloatBits Model.FloatX87 Model.FloatPPC Model.Users.
(* after the models above: extraction renames the constructors that clash with earlier ones (tobj's TFunc) *)
From LLIR Require Proofs.SkeletonProofs Proofs.PlaceholderProofs.

Definition byte_of_N_total (n : N) : byte := match Byte.of_N n with Some b => b | None => x00 end.
(* C19: run the chunks against a writer failing after k bytes: (size, failed?, delivered, calls) *)
Definition writeto_fail_after (k : nat) (chunks : list bytes) : nat * bool * bytes * nat :=
  let s := Writer.run nat (fail_after k) 0 chunks in
  (fw_size nat s, match fw_err nat s with Some _ => true | None => false end, fw_delivered nat s, fw_calls nat s).
(* C18: the regenerated keyword tables *)
Definition bytes_of_string (s : string) : bytes := list_byte_of_string s.
Definition enum_table (ty : string) : option enum_tables :=
  find (fun t => EnumModel.bytes_eqb (e_name t) (bytes_of_string ty)) all_enums.
Definition print_Z (z : Z) : bytes :=
  match z with Zneg p => x2d :: Radix.print_dec_N (Npos p) | _ => Radix.print_dec_N (Z.to_N z) end.
(* String() of an enum value: the keyword from the regenerated table, or Type(n) *)
Definition enum_str (ty : string) (v : Z) : bytes :=
  match enum_table ty with
  | Some t => match to_string t v with
              | Some s => s
              | None => (bytes_of_string ty ++ [x28] ++ print_Z v ++ [x29])%list
              end
  | None => nil
  end.
Definition enum_from (ty : string) (s : bytes) : option Z :=
  match enum_table ty with
  | Some t => match from_string t s with EnumModel.Ok v => Some v | EnumModel.Panic => None end
  | None => None
  end.
(* asm.irCallingConv on  cc N  (theorem C18_numeric_calling_convention_read over the regenerated body) *)
Definition cc_read (n : Z) : Z := if (n =? 0)%Z then 1%Z else n.
Definition flagset_value (ty : string) (names : list bytes) : option Z :=
  fold_left (fun acc s => match acc, enum_from ty s with Some a, Some v => Some (Z.lor a v) | _, _ => None end) names (Some 0%Z).
(* C09 *)
(* outcomes cross the extraction boundary as (code, payload): 0 Ok, 1 Err, 2 Panic -- so that the OCaml
   side does not depend on how extraction renames the constructors of the models' outcome types *)
Definition c09_parse (w : N) (s : bytes) : nat * Z :=
  match IntLit.parse_int w s with IntLit.Ok v => (0, v) | IntLit.Err => (1, 0%Z) | IntLit.Panic => (2, 0%Z) end.
Definition c09_ident (hex : bool) (w : N) (x : Z) : nat * bytes :=
  match IntLit.ident (fun _ => hex) w x with IntLit.Ok v => (0, v) | IntLit.Err => (1, nil) | IntLit.Panic => (2, nil) end.
(* C11 *)
Definition c11_ident (o : option Enc.ident) : nat * bytes * Z :=
  match o with Some (Enc.Name s) => (0, s, 0%Z) | Some (Enc.ID k) => (1, nil, k) | None => (2, nil, 0%Z) end.
Definition c11_dec_global (n : bytes) := c11_ident (decode_global (global_name n)).
Definition c11_dec_local (n : bytes) := c11_ident (decode_local (local_name n)).
Definition c11_dec_label (n : bytes) := c11_ident (decode_label (label_name n)).
Definition c11_dec_type (n : bytes) := decode_type (type_name n).
Definition c11_dec_comdat (n : bytes) := decode_comdat (comdat_name n).
Definition c11_dec_metadata (n : bytes) := match metadata_name n with Some t => decode_metadata_name t | None => None end.
(* C07 *)
Definition gep_env (l : list (bytes * list ty)) : Gep.env :=
  fun n => match find (fun p => Lib.Bytes.bytes_eqb (fst p) n) l with Some p => Some (snd p) | None => None end.
Definition gep_out (o : Gep.outcome ty) : option ty := match o with Gep.Ok t => Some t | Gep.Panic => None end.
Fixpoint gep_all (l : list (Gep.outcome index)) : option (list index) :=
  match l with
  | nil => Some nil
  | Gep.Ok i :: r => match gep_all r with Some r' => Some (i :: r') | None => None end
  | Gep.Panic :: _ => None
  end.
Definition gep_result (bodies : list (bytes * list ty)) (elem src : ty) (idxs : list index) : option ty :=
  gep_out (result_type (gep_env bodies) elem src idxs).
Definition gep_via (cls : iform -> Gep.outcome index) (bodies : list (bytes * list ty)) (elem src : ty) (fs : list iform) : option ty :=
  match gep_all (map cls fs) with
  | Some idxs => gep_out (result_type (gep_env bodies) elem src idxs)
  | None => None
  end.
Definition gep_inst := gep_via classify_ir_inst.
Definition gep_parse := gep_via classify_asm_inst.
Definition gep_expr := gep_via (fun f => match f with IConst c => classify_ir_expr c | IValue _ => Gep.Panic end).
Definition mk_index (h : bool) (v : Z) (l : N) : index := {| has_val := h; val := v; vector_len := l |}.
(* C06 *)
Definition rt_out (o : ResultType.outcome ty) : option ty := match o with ResultType.Ok t => Some t | ResultType.Panic => None end.
Definition c06_ir (bodies : list (bytes * list ty)) (s : shape) : option ty := rt_out (ir_type (gep_env bodies) s).
Definition c06_asm (bodies : list (bytes * list ty)) (s : shape) : option ty := rt_out (asm_type (gep_env bodies) s).
(* C08 *)
Definition mk_item (n : bool) (id : Z) (v : bool) : item := {| it_named := n; it_id := id; it_value := v |}.
Definition c08_assign (l : list item) : option (list item) :=
  match assign_ids l with Numbering.Ok r => Some r | Numbering.Err => None end.
Definition mk_gent (k : nat) (named : bool) : gent :=
  {| g_kind := match k with 0 => Numbering.KGlobal | 1 => Numbering.KAlias | 2 => Numbering.KIFunc | _ => Numbering.KFunc end;
     g_item := {| it_named := named; it_id := 0%Z; it_value := true |} |}.
Definition c08_print_after_parse (l : list gent) : bool :=
  match print_after_parse l with Numbering.Ok _ => true | Numbering.Err => false end.
(* C17 *)
Definition c17_assign (ids : list Z) : option (list Z) :=
  match assign_md_ids ids with MetadataIDs.Ok r => Some r | MetadataIDs.Err => None end.
(* C04/C05/C12: the resolution skeleton; map iteration in insertion order, sort = identity (neither
   influences the outcome class: translate_order_independent) *)
Definition sk_translate (l : list top) : nat :=
  match translate (fun _ x => x) (fun x => x) l with Skeleton.Ok _ => 0 | Skeleton.Err => 1 | Skeleton.Panic => 2 end.
Definition sk_translate_rev (l : list top) : nat :=
  match translate (fun _ x => rev x) (fun x => x) l with Skeleton.Ok _ => 0 | Skeleton.Err => 1 | Skeleton.Panic => 2 end.
Definition mk_top (n : ns) (i : option Skeleton.ident) (k : tkind) (u : list use) (b : list Skeleton.ident) (ba : list (Skeleton.ident * Skeleton.ident)) : top :=
  {| t_ns := n; t_id := i; t_kind := k; t_uses := u; t_blocks := b; t_baddrs := ba |}.
Definition mk_use (n : ns) (i : Skeleton.ident) : use := {| u_ns := n; u_id := i |}.
(* constructors cross the extraction boundary through functions (extraction renames clashing constructor names) *)
Definition sk_name (s : bytes) : Skeleton.ident := Skeleton.IName s.
Definition sk_num (z : Z) : Skeleton.ident := Skeleton.INum z.
Definition sk_ns (k : nat) : ns := match k with 0 => NType | 1 => NComdat | 2 => NGlobal | 3 => NAttr | _ => NMeta end.
Definition sk_kind (k : nat) (target : Skeleton.ident) : tkind := match k with 0 => KPlain | 1 => KOpaque | _ => Skeleton.KAlias target end.
(* C04, placeholders and parent links (Proofs/PlaceholderProofs.v): the two-phase translation with the identity
   oracles, or with the reversing oracle for the order o2 in which the bodies are translated; the outcome
   crosses as (code, observation), an observed entity as (is a function, parent flag, blocks) where a
   global variable is (false, false, [(false, constants of its initialiser)]) *)
Definition ph_site (f b : Skeleton.ident) : PlaceholderProofs.site := (f, b).
Definition ph_var (i : Skeleton.ident) (init : list PlaceholderProofs.site) : PlaceholderProofs.atop :=
  {| PlaceholderProofs.a_id := i; PlaceholderProofs.a_body := PlaceholderProofs.AVar init |}.
Definition ph_decl (i : Skeleton.ident) : PlaceholderProofs.atop :=
  {| PlaceholderProofs.a_id := i; PlaceholderProofs.a_body := PlaceholderProofs.ADecl |}.
Definition ph_def (i : Skeleton.ident) (bl : list (Skeleton.ident * list PlaceholderProofs.site)) : PlaceholderProofs.atop :=
  {| PlaceholderProofs.a_id := i; PlaceholderProofs.a_body := PlaceholderProofs.ADef bl |}.
Definition ph_const := option (nat * nat).
Definition ph_entity := option (bool * bool * list (bool * list ph_const)).
Definition ph_obs_flat (o : option PlaceholderProofs.obs) : ph_entity :=
  match o with
  | None => None
  | Some (PlaceholderProofs.ObsVar init) => Some (false, false, [(false, init)])
  | Some (PlaceholderProofs.ObsFunc p bl) => Some (true, p, bl)
  end.
Definition ph_run (rev2 : bool) (tops : list PlaceholderProofs.atop) (late : list PlaceholderProofs.site)
  : nat * (list ph_entity * list ph_const) :=
  match PlaceholderProofs.run SkeletonProofs.id_oracle
          (if rev2 then PlaceholderProofs.rev_oracle else SkeletonProofs.id_oracle)
          {| PlaceholderProofs.a_tops := tops; PlaceholderProofs.a_late := late |} with
  | Skeleton.Ok (t, l) => (0, (map ph_obs_flat t, l))
  | Skeleton.Err => (1, (nil, nil))
  | Skeleton.Panic => (2, (nil, nil))
  end.
(* C14 *)
Definition h_insert (p : nat) (x : item) : op := Insert p x.
Definition h_remove (p : nat) : op := Remove p.
Definition h_rename (p : nat) (n : bool) : op := Rename p n.
Definition h_print : op := Print.
Definition h_query : op := Query.
Definition c14_final (h : list op) (l : list item) : option (list item) := final_print h l.
(* C15: the successor cache; a history step is (is_write, target index, block) *)
Definition c15_succs (targets : list Z) (h : list (bool * (nat * Z))) : list (list Z) :=
  fst (trun Z (map (fun o => match o with (true, (i, b)) => TWrite Z i b | (false, _) => TSuccs Z end) h)
            {| t_targets := targets; t_cache := None |}).
(* C10: values cross as (code, sign, mantissa, exponent): 0 zero, 1 finite, 2 inf, 3 nan, 4 panic *)
Definition fval_code (v : fval) : nat * bool * Z * Z :=
  match v with
  | FZero s => (0, s, 0%Z, 0%Z) | FFin s m e => (1, s, Zpos m, e) | FInf s => (2, s, 0%Z, 0%Z) | FNaN s => (3, s, 0%Z, 0%Z)
  end.
Definition c10_fmt (k : nat) : fmt := match k with 0 => binary16 | 1 => binary64 | _ => binary128 end.
Definition c10_dec_ieee (k : nat) (bits : Z) := fval_code (decode (c10_fmt k) bits).
Definition c10_rt_ieee (k : nat) (bits : Z) : Z := encode (c10_fmt k) (decode (c10_fmt k) bits).
Definition c10_dec80 (bits : Z) := fval_code (decode80 (0 <? bits / 2 ^ 79)%Z ((bits / 2 ^ 64) mod 2 ^ 15)%Z (bits mod 2 ^ 64)%Z).
Definition c10_rt80 (bits : Z) : option Z :=
  match encode80 (decode80 (0 <? bits / 2 ^ 79)%Z ((bits / 2 ^ 64) mod 2 ^ 15)%Z (bits mod 2 ^ 64)%Z) with
  | Some (s, E, m) => Some (((if s then 2 ^ 15 else 0) + E) * 2 ^ 64 + m)%Z
  | None => None
  end.
Definition c10_dec_ppc (bits : Z) : nat * bool * Z * Z :=
  match decode_ppc (bits / 2 ^ 64)%Z (bits mod 2 ^ 64)%Z with PVal v => fval_code v | PPanic => (4%nat, false, 0%Z, 0%Z) end.
(* 0 parse panic, 1 print panic, 2 ok *)
Definition c10_rt_ppc (bits : Z) : nat * Z :=
  match decode_ppc (bits / 2 ^ 64)%Z (bits mod 2 ^ 64)%Z with
  | PPanic => (0%nat, 0%Z)
  | PVal v => match encode_ppc v with Some (a, b) => (2%nat, (a * 2 ^ 64 + b)%Z) | None => (1%nat, 0%Z) end
  end.
Definition hex_of_Z (z : Z) : bytes := Radix.print_hex_N (Z.to_N z).
(* C10, decimal literals of kind double: the 63-bit pattern the reader Model/DecRead.v gives mant * 10^e10 *)
Definition c10_dec_read (neg : bool) (mant e10 : Z) : Z :=
  ((if neg then 2 ^ 63 else 0) + DecRead.bits_of_rd (DecRead.read_decimal mant e10))%Z.
Definition sort_ids (l : list Z) : list Z := isort Z.ltb l.

Extraction "model.ml" byte_of_N_total Byte.to_N
  Natsort.less Natsort.sort_strings sort_ids
  writeto_fail_after enum_str enum_from cc_read flagset_value c09_parse c09_ident
  Enc.global_name Enc.local_name Enc.label_name Enc.type_name Enc.comdat_name Enc.metadata_name Enc.escape_ident Enc.escape_string Enc.quote Enc.unescape
  Enc.global_id Enc.local_id Enc.label_id c11_dec_global c11_dec_local c11_dec_label c11_dec_type c11_dec_comdat c11_dec_metadata
  TypeString.ty_string TypeString.equal_go
  gep_result gep_inst gep_parse gep_expr mk_index c06_ir c06_asm mk_item c08_assign Numbering.it_id mk_gent c08_print_after_parse c17_assign sk_translate sk_translate_rev ph_site ph_var ph_decl ph_def ph_run mk_top mk_use sk_name sk_num sk_ns sk_kind h_insert h_remove h_rename h_print h_query c14_final Numbering.it_named
  c15_succs c10_dec_ieee c10_rt_ieee c10_dec80 c10_rt80 c10_dec_ppc c10_rt_ppc hex_of_Z c10_dec_read.
