(* Extraction of the executable models to OCaml for the correspondence leg.
   ExtrOcamlBasic only: bool, option, unit, list, prod, sumbool, sumor map to OCaml's own types;
   N, Z, positive, nat, byte stay the extracted inductive types. *)
From Coq Require Import ExtrOcamlBasic.
From Coq Require Import Strings.Byte NArith ZArith List.
From LLIR Require Import Lib.Bytes Model.Natsort Model.Assemble.

Definition byte_of_N_total (n : N) : byte := match Byte.of_N n with Some b => b | None => x00 end.
Definition sort_ids (l : list Z) : list Z := isort Z.ltb l.

Extraction "model.ml" byte_of_N_total Byte.to_N
  Natsort.less Natsort.sort_strings sort_ids.
